"""Registry: property id -> Lean modules, generated inputs, correspondence streams, trusted base."""
import s_codec

KERNEL = "Lean 4.33.0 kernel; axioms limited to propext, Classical.choice, Quot.sound (audited with #print axioms on every run)"
HARNESS = "the correspondence harness (generators, canonicalisation) in /verif/harness"

PROPS = {
    "C05": {
        "lean": ["AriVerif.Props.C05"],
        "gen": [],
        "streams": [s_codec.stream],
        "trusted": [KERNEL, HARNESS,
                    "modelled, not verified: CPython's urllib.parse.quote_plus/unquote_plus and str.encode/decode "
                    "(their behaviour is what the differential compares with Ari.quotePlus / Ari.unq)"],
        "assumptions": ["Python str without lone surrogates = Lean String",
                        "decode_string is modelled for ASCII tokens (the reader decodes the wire as ASCII)",
                        "the model's `invalid` stands for Python's U+FFFD substitution; no property speaks about it"],
        "rule": "values = None, '', every code point of the tier's set, all strings up to the tier's length over a "
                "27-character reserved/special alphabet, random mixed strings, random alternative URL-encodings, "
                "malformed tokens; non-trivial = value needs at least one escape or is None/'' (distinct values), "
                "plus distinct alternative-encoding tokens",
    },
}
