"""Registry: property id -> Lean modules, generated inputs, correspondence streams, trusted base."""
import s_codec
import s_keepalive

KERNEL = "Lean 4.33.0 kernel; axioms limited to propext, Classical.choice, Quot.sound (audited with #print axioms on every run)"
HARNESS = "the correspondence harness (generators, canonicalisation) in /verif/harness"

PROPS = {
    "C05": {
        "lean": ["AriVerif.Props.C05"],
        "gen": [],
        "streams": [s_codec.stream],
        "trusted": [KERNEL, HARNESS,
                    "modelled, not verified: CPython's urllib.parse.quote_plus/unquote_plus and str.encode/decode "
                    "(their behaviour is what the differential compares with Ari.quotePlus / Ari.unq)"],
        "assumptions": ["Python str without lone surrogates = Lean String",
                        "decode_string is modelled for ASCII tokens (the reader decodes the wire as ASCII)",
                        "the model's `invalid` stands for Python's U+FFFD substitution; no property speaks about it"],
        "rule": "values = None, '', every code point of the tier's set, all strings up to the tier's length over a "
                "27-character reserved/special alphabet, random mixed strings, random alternative URL-encodings, "
                "malformed tokens; non-trivial = value needs at least one escape or is None/'' (distinct values), "
                "plus distinct alternative-encoding tokens",
    },
    "C12": {
        "lean": ["AriVerif.Props.C12"],
        "gen": ["KeepAlive"],
        "streams": [s_keepalive.stream],
        "trusted": [KERNEL, HARNESS, "harness/extract.py (Python-subset -> Lean translator) for Gen/KeepAlive.lean, "
                    "mitigated by the grid differential of the generated definitions against the real method",
                    "modelled, not verified: float arithmetic of CPython (the model is exact over Rat; the grid uses "
                    "exactly representable values, where float ordering and correctly-rounded division agree with Rat)"],
        "assumptions": ["the hint token parses with float(); non-numeric hints (ValueError on the reader thread) are outside the property",
                        "Server._change_keep_alive reaches the writer through _RequestManager.change_keep_alive (checked by the C13 co-simulation)"],
        "rule": "grid: configured in {None,-1,-0.5,0,1/8,1/2,1,1.5,5,10,12,3600} x hints {absent, negative, 0, boundaries around "
                "1000/10000/configured*1000, large, decimal-string forms, random k/8}; both server kinds; non-trivial = positive hint (distinct (kind,cfg,hint))",
    },
}
