"""Shared machinery for the /verif checks (build, audit, driver, evidence, findings)."""
import fcntl
import hashlib
import json
import os
import random
import re
import shutil
import subprocess
import sys
import tempfile
import time

VERIF = os.path.dirname(os.path.dirname(os.path.abspath(__file__)))
LEAN = os.path.join(VERIF, "lean")
REPO = os.environ.get("VERIF_REPO", "/repo")
EVIDENCE = os.path.join(VERIF, "evidence")
CORPUS = os.path.join(VERIF, "corpus")
REPLAYS = os.path.join(VERIF, "replays")
FINDINGS = os.path.join(VERIF, "known_findings.json")
DRIVER = os.path.join(LEAN, ".lake", "build", "bin", "driver")
STD_AXIOMS = {"propext", "Classical.choice", "Quot.sound"}
FORBIDDEN = re.compile(r"\b(sorry|admit|native_decide|bv_decide|implemented_by|unsafe)\b"
                       r"|^\s*axiom\s|maxHeartbeats\s+0\b", re.M)

if REPO not in sys.path:
    sys.path.insert(0, REPO)


class Infra(Exception):
    """Infrastructure failure (exit 2, never a violation)."""


def seed():
    try:
        return int(os.environ.get("VERIF_SEED", "0"))
    except ValueError:
        return 0


def rng(tag):
    """One PRNG per stream, derived from VERIF_SEED and the stream name only."""
    h = hashlib.sha256(("%d/%s" % (seed(), tag)).encode()).digest()
    return random.Random(int.from_bytes(h[:8], "big"))


def hx(s):
    """hex of UTF-8 (or of raw bytes); '-' for empty."""
    b = s.encode("utf-8") if isinstance(s, str) else bytes(s)
    return b.hex() if b else "-"


def unhx(t):
    return b"" if t == "-" else bytes.fromhex(t)


class BuildLock:
    def __enter__(self):
        os.makedirs(os.path.join(LEAN, ".lake"), exist_ok=True)
        self.f = open(os.path.join(LEAN, ".lake", "verif.lock"), "w")
        fcntl.flock(self.f, fcntl.LOCK_EX)
        return self

    def __exit__(self, *a):
        fcntl.flock(self.f, fcntl.LOCK_UN)
        self.f.close()


def strip_comments(src):
    """Remove Lean comments (nested block comments and line comments) and string literals."""
    out = []
    i, n, depth = 0, len(src), 0
    while i < n:
        if src.startswith("/-", i):
            depth += 1
            i += 2
        elif depth and src.startswith("-/", i):
            depth -= 1
            i += 2
        elif depth:
            if src[i] == "\n":
                out.append("\n")
            i += 1
        elif src.startswith("--", i):
            while i < n and src[i] != "\n":
                i += 1
        elif src[i] == '"':
            i += 1
            while i < n and src[i] != '"':
                i += 2 if src[i] == "\\" else 1
            i += 1
            out.append('""')
        else:
            out.append(src[i])
            i += 1
    return "".join(out)


def lean_sources():
    res = []
    for root, _dirs, files in os.walk(os.path.join(LEAN, "AriVerif")):
        for f in files:
            if f.endswith(".lean"):
                res.append(os.path.join(root, f))
    res.append(os.path.join(LEAN, "Driver.lean"))
    return sorted(res)


def grep_forbidden():
    hits = []
    for p in lean_sources():
        code = strip_comments(open(p, encoding="utf-8").read())
        for m in FORBIDDEN.finditer(code):
            line = code.count("\n", 0, m.start()) + 1
            hits.append("%s:%d:%s" % (os.path.relpath(p, LEAN), line, m.group(0).strip()))
    return hits


def theorems_of(module):
    """Fully qualified names of the theorems stated in a Props module."""
    path = os.path.join(LEAN, *module.split(".")) + ".lean"
    code = strip_comments(open(path, encoding="utf-8").read())
    stack, out = [], []
    for line in code.split("\n"):
        m = re.match(r"^namespace\s+([A-Za-z0-9_.]+)", line)
        if m:
            stack.append(m.group(1))
            continue
        m = re.match(r"^end\s+([A-Za-z0-9_.]+)", line)
        if m and stack and stack[-1] == m.group(1):
            stack.pop()
            continue
        m = re.match(r"^theorem\s+([A-Za-z0-9_'.]+)", line)
        if m:
            out.append(".".join(stack + [m.group(1)]))
    return out


def lake_build(targets, timeout=3000):
    """Returns (ok, output)."""
    t0 = time.time()
    p = subprocess.run(["lake", "build"] + list(targets), cwd=LEAN, stdout=subprocess.PIPE,
                       stderr=subprocess.STDOUT, text=True, timeout=timeout)
    return p.returncode == 0, p.stdout, time.time() - t0


def failing_decls(build_output):
    """Extract `file:line` + first message line of each Lean error in a lake build log."""
    errs = []
    for m in re.finditer(r"^error: ([^\n:]+\.lean):(\d+):(\d+): ([^\n]*)", build_output, re.M):
        errs.append({"file": m.group(1), "line": int(m.group(2)), "msg": m.group(4)[:200]})
    return errs


def enclosing_decl(relfile, line):
    try:
        src = open(os.path.join(LEAN, relfile), encoding="utf-8").read().split("\n")
    except OSError:
        return None
    for i in range(min(line, len(src)) - 1, -1, -1):
        m = re.match(r"\s*(?:private\s+|protected\s+)?(theorem|def|lemma|example|instance|abbrev)\s*([A-Za-z0-9_'.]*)", src[i])
        if m:
            return (m.group(1) + " " + m.group(2)).strip()
    return None


def audit_axioms(module, names):
    """`#print axioms` for each theorem; returns {name: [axioms]}."""
    if not names:
        return {}
    d = os.path.join(LEAN, ".lake", "audit")
    os.makedirs(d, exist_ok=True)
    path = os.path.join(d, module.replace(".", "_") + ".lean")
    with open(path, "w") as f:
        f.write("import %s\n" % module)
        for n in names:
            f.write("#print axioms %s\n" % n)
    p = subprocess.run(["lake", "env", "lean", path], cwd=LEAN, stdout=subprocess.PIPE,
                       stderr=subprocess.STDOUT, text=True, timeout=1800)
    out = p.stdout
    res = {}
    for m in re.finditer(r"^'(.+?)' depends on axioms: \[([^\]]*)\]", out, re.S | re.M):
        res[m.group(1).split(".")[-1]] = [a.strip() for a in m.group(2).replace("\n", " ").split(",") if a.strip()]
    for m in re.finditer(r"^'(.+?)' does not depend on any axioms", out, re.M):
        res[m.group(1).split(".")[-1]] = []
    missing = [n for n in names if n.split(".")[-1] not in res]
    if p.returncode != 0 or missing:
        raise Infra("axiom audit failed for %s: missing %s\n%s" % (module, missing, out[-2000:]))
    return res


def run_driver(lines, timeout=3000):
    """Pipe operation lines through the compiled Lean driver; returns the answer lines."""
    if not os.path.exists(DRIVER):
        raise Infra("driver not built")
    data = ("\n".join(lines) + "\n").encode("utf-8")
    p = subprocess.run([DRIVER], input=data, stdout=subprocess.PIPE, stderr=subprocess.PIPE,
                       timeout=timeout)
    if p.returncode != 0:
        raise Infra("driver failed: " + p.stderr.decode("utf-8", "replace")[-2000:])
    out = p.stdout.decode("utf-8").split("\n")
    if out and out[-1] == "":
        out.pop()
    if len(out) != len(lines):
        raise Infra("driver answered %d lines for %d operations" % (len(out), len(lines)))
    return out


def load_findings():
    try:
        return json.load(open(FINDINGS))
    except OSError:
        return {"known": [], "fixed": []}


def write_json(path, obj):
    os.makedirs(os.path.dirname(path), exist_ok=True)
    tmp = path + ".tmp%d" % os.getpid()
    with open(tmp, "w") as f:
        json.dump(obj, f, indent=1, sort_keys=True, default=str)
        f.write("\n")
    os.replace(tmp, path)


def scratch_dir():
    return tempfile.mkdtemp(prefix="ariverif-")


def rm_rf(p):
    shutil.rmtree(p, ignore_errors=True)
