"""Pure differential streams for the wire layer: parse_request, the 18 read_* functions, the
Metadata `_on_*` closures (adapter wiring + reply), every writer, and the exception mapping.
Each stream also evaluates the property's own statement on the REAL code's results."""
import itertools
import common as C
import ari
from streams import Result, diff
from s_codec import rand_string, SPECIAL


def mods():
    import lightstreamer_adapter.protocol as p
    import lightstreamer_adapter.data_protocol as dp
    import lightstreamer_adapter.metadata_protocol as mp
    return p, dp, mp


# ------------------------------------------------------------------ value generators
def gen_text(R, allow_none=True):
    k = R.random()
    if allow_none and k < 0.08:
        return None
    if k < 0.14:
        return ""
    if k < 0.5:
        return "".join(R.choice("abcdefghXYZ0189_-. ") for _ in range(R.randrange(1, 9)))
    s = rand_string(R)
    return s.replace("�", "?")


def distinct_text(R, tag):
    """value that is different in every slot of one request (identifies positional layouts)."""
    base = gen_text(R, allow_none=False) or ""
    return "%s<%s>" % (base[:6], tag)


def gen_int(R):
    return R.choice([0, 1, -1, 7, 42, 10 ** 9, -10 ** 12, R.randrange(-10 ** 6, 10 ** 6), 2 ** 70])


def gen_mode(R):
    return R.choice(["R", "M", "D", "C", None])


def gen_plat(R):
    return R.choice(["A", "G", None, ""])


def gen_request(method, R, distinct=True):
    tys, tail = ari.LAYOUT[method]
    fixed = []
    for i, (name, ty) in enumerate(tys):
        if ty == "S":
            fixed.append(distinct_text(R, "f%d" % i) if distinct and R.random() < 0.8 else gen_text(R))
        elif ty == "I":
            fixed.append(gen_int(R) + i)
        elif ty == "M":
            fixed.append(gen_mode(R))
        else:
            fixed.append(gen_plat(R))
    tv = None
    if tail:
        n = R.choice([0, 0, 1, 1, 2, 3, 6])
        if tail[0] == "map":
            tv = [(distinct_text(R, "k%d" % j) if R.random() < 0.85 else gen_text(R),
                   distinct_text(R, "v%d" % j) if R.random() < 0.7 else gen_text(R)) for j in range(n)]
            if n >= 2 and R.random() < 0.2:
                tv[-1] = (tv[0][0], tv[-1][1])          # duplicate key: last wins
        elif tail[0] == "seq":
            tv = [distinct_text(R, "e%d" % j) if R.random() < 0.8 else gen_text(R) for j in range(n)]
            if n >= 2 and R.random() < 0.25:
                tv[R.randrange(1, n)] = tv[0]           # the same element named twice: still one entry per position
        else:
            tv = [(gen_int(R), gen_mode(R), distinct_text(R, "g%d" % j), distinct_text(R, "s%d" % j),
                   gen_int(R) + 1, gen_int(R) + 2, gen_text(R)) for j in range(n)]
            if n >= 2 and R.random() < 0.2:
                tv[R.randrange(1, n)] = tv[0]           # two identical table descriptors
    return fixed, tv


def expected(method, fixed, tail):
    """What decoding must yield (values in their roles), built from the generated values only."""
    from lightstreamer_adapter.interfaces.metadata import Mode, MpnPlatformType, TableInfo, MpnDeviceInfo, MpnSubscriptionInfo
    md = lambda m: None if m is None else Mode(m)
    pl = lambda p: p if p in (None, "") else MpnPlatformType(p)
    tab = lambda t: TableInfo(t[0], md(t[1]), t[2], t[3], t[4], t[5], t[6])
    tys, tl = ari.LAYOUT[method]
    if method in ("SUB", "USB", "NSC"):
        return fixed[0]
    if method in ("DPI", "MPI"):
        return dict(tail)
    if method == "GIT":
        return list(tail)
    d = {}
    if method in ("MDA", "MDC"):
        d = {"user": fixed[0], "sessionId": fixed[1], "mpnDeviceInfo": MpnDeviceInfo(pl(fixed[2]), fixed[3], fixed[4])}
        if method == "MDC":
            d["newDeviceToken"] = fixed[5]
        return d
    if method == "MSA":
        return {"user": fixed[0], "session_id": fixed[1],
                "table": TableInfo(fixed[2], md(fixed[3]), fixed[4], fixed[5], fixed[6], fixed[7], None),
                "subscription": MpnSubscriptionInfo(device=MpnDeviceInfo(pl(fixed[8]), fixed[9], fixed[10]),
                                                    trigger=fixed[11], notification_format=fixed[12])}
    for (name, ty), v in zip(tys, fixed):
        d[name] = v
    if tl:
        d[tl[1]] = dict(tail) if tl[0] == "map" else list(tail) if tl[0] == "seq" else [tab(t) for t in tail]
    return d


# malformed tokens include characters that are special to str.format / % formatting / regexes / paths
BAD_INTS = ["", "#", "$", "None", "x", "1.5", "0x10", "--1", "1__0", "_1", "1_", "+", "-", "1e3", "{0}", "{", "%d", "1}"]
BAD_MODES = ["X", "r", "m", "1", "Q#", "*", "{M}", "{", "}", "%s", "{0}", "\\", "HM", "XR", "rM", "ZRMDC", "1M", "xC", "QD", "-R", "HMX", "xRMDC"]   # DESIGN I-2: unknown = FIRST character not in RMDC
BAD_PLATS = ["X", "a", "AG", "GG", "1", "##", "{A}", "{}", "%s", "}{"]
BAD_MARKERS = ["S", "I", "M", "P", "B", "s", "S1", "", "#", "{S}", "{", "}", "{0}", "%s", "%(S)s", "S}", "\\S"]


def malform(method, toks, R):
    """One malformed variant of a well-formed token list; returns (tokens, kind, must_reject)."""
    tys, tail = ari.LAYOUT[method]
    nfixed = 2 * len(tys)
    k = R.randrange(7)
    if k == 0 and toks:                                   # truncation at every position
        cut = R.randrange(len(toks))
        must = cut < nfixed or (tail and tail[0] == "seq" and (cut - nfixed) % 2 == 1) or \
            (tail and tail[0] == "map" and (cut - nfixed) % 2 == 1) or (tail and tail[0] == "tab" and (cut - nfixed) % 14 != 0)
        return toks[:cut], "truncate", bool(must)
    if k == 1 and toks:                                   # wrong type marker
        pos = R.randrange(0, len(toks), 2)
        if tail and tail[0] == "map" and pos >= nfixed:
            n = len(toks) - nfixed
            # a marker inside the ignored dangling part of a map is not looked at
            if pos - nfixed >= ((n - 2 + 3) // 4) * 4 if n >= 2 else True:
                return toks, "noop", False
        if method in ("SUB", "USB", "NSC", "GIS", "GSC", "NUM", "MDA", "MSA", "MDC") and pos >= nfixed:
            return toks, "noop", False
        new = R.choice([m for m in BAD_MARKERS if m != toks[pos]])
        return toks[:pos] + [new] + toks[pos + 1:], "marker", True
    if k == 2:                                            # corrupt a typed value in a fixed slot
        slots = [i for i, (_, ty) in enumerate(tys) if ty in "IMP"]
        if slots:
            i = R.choice(slots)
            ty = tys[i][1]
            bad = R.choice({"I": BAD_INTS, "M": BAD_MODES, "P": BAD_PLATS}[ty])
            return toks[:2 * i + 1] + [bad] + toks[2 * i + 2:], "typed-" + ty, True
        if tail and tail[0] == "tab" and len(toks) > nfixed:
            i = nfixed + R.choice([1, 3, 9, 11])
            if i < len(toks):
                ty = ari.TABLE_TYS[((i - nfixed) % 14) // 2]
                bad = R.choice(BAD_INTS if ty == "I" else BAD_MODES)
                return toks[:i] + [bad] + toks[i + 1:], "typed-" + ty, True
    if k == 3 and toks:                                   # delete a token
        pos = R.randrange(len(toks))
        return toks[:pos] + toks[pos + 1:], "delete", False
    if k == 4 and toks:                                   # duplicate a token
        pos = R.randrange(len(toks))
        return toks[:pos] + [toks[pos]] + toks[pos:], "duplicate", False
    if k == 5:                                            # random token list
        n = R.randrange(0, 9)
        return [R.choice(["S", "I", "M", "P", "#", "$", "a", "1", "-3", "R", "A", "x+y", "%41", "", " ", "{S}", "{", "}", "%s", "{0}"]) for _ in range(n)], "random", False
    return toks + [R.choice(["S", "x", "S|", ""])], "append", False


# ------------------------------------------------------------------ stream: requests (C06, C09, C15-parse)
def c_read(method, toks):
    p, _, _ = mods()
    try:
        r = ari.reader(method)(list(toks))
    except p.RemotingException as e:
        named = ("parsing %s request" % method) in str(e)
        return "err " + (method if named else "UNNAMED:" + str(e)[:40]), None
    except Exception as e:      # must never happen (C09)
        return "err OTHER:" + type(e).__name__, e
    return "ok " + ari.c_read_result(method, r), r


def stream_requests(tier):
    p, _, _ = mods()
    R = C.rng("requests")
    res = Result("requests-differential")
    n_valid = {"quick": 220, "search": 600, "thorough": 8000}[tier]
    n_bad = {"quick": 330, "search": 900, "thorough": 11000}[tier]
    ops, impl = [], []
    for method in ari.METHODS:
        for j in range(n_valid):
            fixed, tail = gen_request(method, R)
            toks = ari.encode_args(method, fixed, tail, R if j % 2 else None)
            ans, got = c_read(method, toks)
            ops.append("read %s %s" % (method, " ".join(C.hx(t) for t in toks)))
            impl.append(ans)
            want = expected(method, fixed, tail)
            if not ans.startswith("ok ") or got != want:
                res.violation("decode:" + method, "read_%s does not invert the ARI encoding: got %r, sent %r" % (method, got if ans.startswith("ok") else ans, want),
                              {"method": method, "tokens": toks})
            res.nontrivial.add((method, tuple(toks)))
            res.distribution["valid_" + method] += 1
            # whole line through parse_request, both terminators
            rid = R.choice(["1", "10000010c3e4d0462", "abc", "0"])
            for term in ("\r\n", "\n"):
                line = "|".join([rid, method] + toks) + term
                pr = p.parse_request(line)
                ops.append("parse " + C.hx(line))
                impl.append("none" if pr is None else "ok " + " ".join(C.hx(x) for x in [pr["id"], pr["method"]] + pr["data"]))
                if pr is None or pr["id"] != rid or pr["method"] != method or pr["data"] != toks:
                    res.violation("parse_request", "parse_request(%r) = %r" % (line, pr), {"line": line})
        for j in range(n_bad):
            fixed, tail = gen_request(method, R, distinct=False)
            toks0 = ari.encode_args(method, fixed, tail)
            toks, kind, must = malform(method, toks0, R)
            ans, exc = c_read(method, toks)
            ops.append("read %s %s" % (method, " ".join(C.hx(t) for t in toks)))
            impl.append(ans)
            res.distribution["malformed_%s_%s" % (kind, "rejected" if ans.startswith("err") else "accepted")] += 1
            if ans.startswith("err OTHER") or ans.startswith("err UNNAMED"):
                res.violation("decode-error-type:" + method, "read_%s raised %s instead of the protocol error naming %s" % (method, ans, method),
                              {"method": method, "tokens": toks})
            elif must and not ans.startswith("err"):
                res.violation("decode-accepts-malformed:" + method + ":" + kind, "malformed %s request (%s) was accepted: %s" % (method, kind, ans),
                              {"method": method, "tokens": toks, "kind": kind})
            if kind != "noop":
                res.nontrivial.add((method, tuple(toks)))
    # odd lines for parse_request (model fidelity; C15 relies on the terminator handling)
    odd = ["", "\r\n", "\n", "|", "||", "a", "a|", "a|b", "a|b|", " a|b ", "a| |b", "|a|b", "a||b|c", "a|b|c|\r\n", "a|b\r", "a|b \t\r\n",
           "a|b\x0c", "\x1ca|b", "a|b|c d", " |a|b|c", "a|b|#|$", "a|\t|b|c"]
    for _ in range({"quick": 300, "search": 300, "thorough": 5000}[tier]):
        odd.append("".join(R.choice(["a", "b", "1", "|", "|", " ", "\t", "\r", "\n", "S", "#", "\x0b", "\x1f"]) for _ in range(R.randrange(0, 10))))
    for line in odd:
        pr = p.parse_request(line)
        ops.append("parse " + C.hx(line))
        impl.append("none" if pr is None else "ok " + " ".join(C.hx(x) for x in [pr["id"], pr["method"]] + pr["data"]))
        res.distribution["parse_odd"] += 1
    res.sample({"op": ops[0], "impl": impl[0]})
    res.sample({"op": ops[-1], "impl": impl[-1]})
    diff(res, ops, impl)
    return res


def _scribble(x, depth=0):
    """mutate every dict / list reachable from a decoded request in place (what an adapter, or the server's own init code,
    is free to do with the object it was handed)"""
    if depth > 4:
        return
    if isinstance(x, dict):
        for v in list(x.values()):
            _scribble(v, depth + 1)
        x["__scribbled__"] = "x"
    elif isinstance(x, list):
        for v in x:
            _scribble(v, depth + 1)
        x.append("__scribbled__")
    elif hasattr(x, "__dict__") and type(x).__module__.startswith("lightstreamer_adapter"):
        for v in list(vars(x).values()):
            _scribble(v, depth + 1)


def stream_decode_pure(tier):
    """C06: decoding is a function of the request line alone — the values one request decodes to are not shared with, and
    cannot be changed through, the values of another (every decoded container is scribbled on before the next decode)."""
    R = C.rng("requests-pure")
    res = Result("requests-decode-is-a-function-of-the-line")
    n = {"quick": 60, "search": 150, "thorough": 1500}[tier]
    for method in ari.METHODS:
        for j in range(n):
            fixed, tail = gen_request(method, R)
            if j % 3 == 0 and tail is not None and isinstance(tail, (list, tuple, dict)):
                tail = type(tail)()                      # zero pairs / zero elements / zero tables
            toks = ari.encode_args(method, fixed, tail)
            want = expected(method, fixed, tail)
            for rep in range(2):
                ans, got = c_read(method, toks)
                res.evaluations += 1
                if not ans.startswith("ok ") or got != want:
                    res.violation("decode-depends-on-history:" + method,
                                  "read_%s(%r) gives %r after an earlier decoded request was modified by its receiver; sent %r" % (
                                      method, toks[:8], got if ans.startswith("ok") else ans, want),
                                  {"method": method, "tokens": toks, "decode_number": rep + 1})
                    break
                try:
                    raw = ari.reader(method)(list(toks))
                except Exception:
                    break
                _scribble(raw)
            res.nontrivial.add((method, tuple(toks)))
            res.distribution["empty_tail" if not tail else "nonempty_tail"] += 1
    return res


def stream_lines_e2e(tier):
    """C06 end to end: conforming request lines (CRLF and bare LF, mixed) through the REAL reader loop
    (_RequestManager._do_run on a scripted socket, random read segmentation), then parse_request and read_<method>:
    every line must be dispatched once and decode to the values sent, whatever its terminator."""
    import s_framing
    p, _, _ = mods()
    R = C.rng("requests-e2e")
    res = Result("requests-through-reader")
    n = {"quick": 25, "search": 60, "thorough": 600}[tier]
    ops, impl = [], []
    for method in ari.METHODS:
        for j in range(n):
            batch = []
            for _ in range(R.choice([1, 2, 3])):
                m = method if not batch else R.choice(ari.METHODS)
                fixed, tail = gen_request(m, R)
                toks = ari.encode_args(m, fixed, tail, R if j % 2 else None)
                rid = R.choice(["1", "10000010c3e4d0462", "abc", "7f"])
                term = R.choice(["\r\n", "\n"])
                batch.append((rid, m, toks, term, expected(m, fixed, tail)))
                res.distribution["term_" + ("crlf" if term == "\r\n" else "lf")] += 1
            s = "".join("|".join([rid, m] + toks) + term for rid, m, toks, term, _ in batch)
            k = R.choice([0, 0, 1, 2, 5])
            cuts = sorted(set(R.randrange(1, len(s)) for _ in range(k))) if len(s) > 1 else []
            b = [0] + cuts + [len(s)]
            chunks = [s[x:y] for x, y in zip(b, b[1:])]
            srv = s_framing.real_loop(chunks)
            ops.append("frame " + " ".join(C.hx(c) for c in chunks if c != ""))
            impl.append("ok " + " ".join(C.hx(l) for l in srv.lines))
            res.nontrivial.add(tuple(chunks))
            case = {"chunks": chunks}
            if len(srv.lines) != len(batch):
                res.violation("e2e-line-not-dispatched", "%d request lines (terminators %r) sent as %r: the reader dispatched %d: %r" % (
                    len(batch), [t for _, _, _, t, _ in batch], chunks, len(srv.lines), srv.lines), case)
                continue
            for (rid, m, toks, term, want), tok in zip(batch, srv.lines):
                pr = p.parse_request(tok)
                if pr is None or pr["id"] != rid or pr["method"] != m:
                    res.violation("e2e-parse", "line %r (terminator %r) parsed as %r" % (tok, term, pr), case)
                    continue
                ans, got = c_read(m, pr["data"])
                if not ans.startswith("ok ") or got != want:
                    res.violation("e2e-decode:" + m, "line with terminator %r decodes to %r, sent %r" % (term, got if ans.startswith("ok") else ans, want), case)
    res.sample({"op": ops[0], "impl": impl[0]})
    model = C.run_driver(ops)
    for op, mo, i in zip(ops, model, impl):
        res.evaluations += 1
        if " ".join(mo.split(" ; ")[0].split()) != " ".join(i.split()):
            res.mismatch(op, mo, i)
    return res


# ------------------------------------------------------------------ scripted adapter + Metadata closures
ADAPTER_METHODS = ["notify_user", "notify_user_with_principal", "get_allowed_max_bandwidth", "wants_tables_notification",
                   "notify_new_session", "notify_session_close", "get_items", "get_schema", "mode_may_be_allowed",
                   "get_distinct_snapshot_length", "get_min_source_frequency", "ismode_allowed", "get_allowed_buffer_size",
                   "get_allowed_max_item_frequency", "notify_user_message", "notify_new_tables", "notify_tables_close",
                   "notify_mpn_device_access", "notify_mpn_subscription_activation", "notify_mpn_device_token_change"]


def scripted_adapter(script, log):
    from lightstreamer_adapter.interfaces.metadata import MetadataProvider

    def mk(name):
        def f(self, *args, **kw):
            log.append((name, args))
            if kw:
                log.append(("KWARGS", tuple(kw)))
            o = script.pop(0) if script else ("ret", None)
            if o[0] == "raise":
                raise o[1]
            return o[1]
        return f
    cls = type("ScriptedMeta", (MetadataProvider,), {n: mk(n) for n in ADAPTER_METHODS})
    return cls()


def exc_classes():
    from lightstreamer_adapter.interfaces import metadata as im, data as idt
    lib = [im.MetadataProviderError, im.NotificationError, im.AccessError, im.ItemsError, im.SchemaError, im.CreditsError,
           im.ConflictingSessionError, idt.DataProviderError, idt.SubscribeError, idt.FailureError]

    class UserDefined(Exception):
        pass

    class UserCredits(im.CreditsError):
        pass

    class UserSubscribe(idt.SubscribeError):
        pass
    # "any other Exception": the usual suspects of a failing adapter body, incl. the ones a library might be tempted to treat
    # specially (TypeError / AttributeError as "wrong signature", OSError as "I/O problem", LookupError, AssertionError)
    return lib, [RuntimeError, ValueError, KeyError, UserDefined, TypeError, AttributeError, OSError, ZeroDivisionError, AssertionError], \
        [UserCredits, UserSubscribe]


class Detail:
    """a non-text exception detail (a wrapped exception, an error object): only its str() is specified"""
    def __init__(self, text):
        self.text = text

    def __str__(self):
        return self.text


def make_exc(cls, R, msg=None):
    from lightstreamer_adapter.interfaces import metadata as im
    msg = gen_text(R, allow_none=False) if msg is None else msg
    if cls is not KeyError and isinstance(msg, str) and R.random() < 0.15:
        msg = Detail(msg)              # `raise SomeError(e)`: the reply carries str(error) whatever the detail object is
    if issubclass(cls, im.ConflictingSessionError):
        return cls(R.choice([0, -1, -5, 7, 12345]), msg, gen_text(R, allow_none=False) or "S1", R.choice([None, "", gen_text(R)]))
    if issubclass(cls, im.CreditsError):
        return cls(R.choice([0, -1, -5, 7, 12345]), msg, R.choice([None, "", gen_text(R)]))
    if cls is KeyError:
        return cls(msg)
    return cls(msg)


def gen_float(R):
    import struct
    k = R.random()
    if k < 0.3:
        return R.choice([0.0, -0.0, 1.0, 0.5, 12.25, 1e22, 1e-7, 123456789.125, 5e-324, 1.7976931348623157e308, 0.1, 1 / 3])
    if k < 0.6:
        return R.uniform(-1000, 1000)
    while True:
        x = struct.unpack("<d", struct.pack("<Q", R.getrandbits(64)))[0]
        if x == x and x not in (float("inf"), float("-inf")):
            return x


WRONG = lambda R: R.choice([0, 1, 5, True, False, 2.5, 0.0, b"ab", b"", "txt", "", None, [1], [], object(), {"a": 1}, ("x",)])


def gen_script(method, nitems, R):
    """Outcomes for the adapter calls a request of `method` will make; returns (script, kind)."""
    lib, other, userdef = exc_classes()
    k = R.random()
    raise_at = None
    calls = {"NUS": 3, "NUA": 3, "GIT": 6 * nitems, "GUI": 6 * nitems}.get(method, 1)
    if k < 0.3 and calls:
        raise_at = R.randrange(calls)
    wrong = 0.3 <= k < 0.45
    script = []
    for i in range(calls):
        if raise_at == i:
            cls = R.choice(lib + other + userdef)
            script.append(("raise", make_exc(cls, R)))
            break
        if method in ("NUS", "NUA"):
            v = [None, gen_float(R), R.choice([True, False])][i]
            if wrong and i > 0 and R.random() < 0.6:
                v = WRONG(R)
        elif method in ("GIS", "GSC"):
            n = R.choice([0, 1, 2, 5])
            v = R.choice([None, [], [gen_text(R, allow_none=R.random() < 0.2) for _ in range(n)], tuple(gen_text(R) for _ in range(n))])
            if wrong:
                v = R.choice([[WRONG(R) for _ in range(R.randrange(1, 4))], [gen_text(R), WRONG(R)], "abc", b"xy", 5, 0, 2.5, True, object()])
        elif method in ("GIT", "GUI"):
            j = i % 6
            if j < 4:
                v = R.choice([True, False, True, 1, 0, None, "x"])
            elif j == 4:
                v = gen_int(R) if not (wrong and R.random() < 0.4) else WRONG(R)
            else:
                v = gen_float(R) if not (wrong and R.random() < 0.4) else WRONG(R)
        else:
            v = R.choice([None, None, 1, "ignored"])
        script.append(("ret", v))
    return script, ("raise" if raise_at is not None else "wrong" if wrong else "ok")


def script_toks(script):
    out = []
    for kind, v in script:
        out.append("R " + ari.py_tok(v) if kind == "ret" else "E " + ari.exc_tok(v))
    return " ".join(out)


def unsupported_in_script(method, script):
    """does the script return a value of an unsupported type in a type-guarded slot? (C04/C07 oracle)"""
    def is_text(x):
        return x is None or isinstance(x, (str, bytes))
    for i, (kind, v) in enumerate(script):
        if kind == "raise":
            return False
        if method in ("NUS", "NUA"):
            if i == 1 and not isinstance(v, float):
                return True
            if i == 2 and not isinstance(v, bool):
                return True
        if method in ("GIS", "GSC") and v and isinstance(v, (list, tuple)) and not all(is_text(x) for x in v):
            return True
        if method in ("GIT", "GUI"):
            if i % 6 == 4 and (not isinstance(v, int) or isinstance(v, bool)):
                return True
            if i % 6 == 5 and not isinstance(v, float):
                return True
    return False


def run_meta(method, toks, script):
    """The real `_on_<method>(data)()` with a scripted adapter: returns (answer, calls, reply/None)."""
    from lightstreamer_adapter.server import MetadataProviderServer
    p, _, _ = mods()
    log = []
    adapter = scripted_adapter(list(script), log)
    srv = MetadataProviderServer(adapter, ("h", 1), thread_pool_size=1)
    try:
        try:
            closure = getattr(srv, "_on_" + method.lower())(list(toks))
        except p.RemotingException as e:
            return "err " + (method if ("parsing %s request" % method) in str(e) else "UNNAMED"), log, None
        except Exception as e:          # anything else escaping the decoder kills the reader thread (C09)
            return "err OTHER:" + type(e).__name__, log, None
        try:
            reply = closure()
            tail = "reply " + C.hx(reply)
        except p.RemotingException:
            reply, tail = None, "remoting"
        except Exception as e:
            reply, tail = None, "pyerror"
    finally:
        srv._executor.shutdown(wait=False)
    calls = " ".join("%s( %s )" % (n, " ".join(ari.c_av(a) for a in args)) for n, args in log)
    return "ok " + calls + " ; " + tail, log, reply


WIRING = {  # adapter method(s) and which decoded roles they must receive, in order (C04 / C06 oracle)
    "NUS": "notify_user", "NUA": "notify_user_with_principal", "NNS": "notify_new_session", "NSC": "notify_session_close",
    "GIS": "get_items", "GSC": "get_schema", "NUM": "notify_user_message", "NNT": "notify_new_tables",
    "NTC": "notify_tables_close", "MDA": "notify_mpn_device_access", "MSA": "notify_mpn_subscription_activation",
    "MDC": "notify_mpn_device_token_change"}


def expected_first_call(method, fixed, tail):
    e = expected(method, fixed, tail)
    if method == "NUS":
        return (e["user"], e["password"], e["httpHeaders"])
    if method == "NUA":
        return (e["user"], e["password"], e["httpHeaders"], e["clientPrincipal"])
    if method == "NNS":
        return (e["user"], e["session_id"], e["clientContext"])
    if method == "NSC":
        return (e,)
    if method == "GIS":
        return (e["user"], e["session_id"], e["group"])
    if method == "GSC":
        return (e["user"], e["session_id"], e["group"], e["schema"])
    if method == "NUM":
        return (e["user"], e["session_id"], e["message"])
    if method == "NNT":
        return (e["user"], e["session_id"], e["tableInfos"])
    if method == "NTC":
        return (e["session_id"], e["tableInfos"])
    if method == "MDA":
        return (e["user"], e["sessionId"], e["mpnDeviceInfo"])
    if method == "MSA":
        return (e["user"], e["session_id"], e["table"], e["subscription"])
    if method == "MDC":
        return (e["user"], e["sessionId"], e["mpnDeviceInfo"], e["newDeviceToken"])
    return None


def stream_meta(tier):
    R = C.rng("meta")
    res = Result("metadata-closures-differential")
    n = {"quick": 250, "search": 800, "thorough": 9000}[tier]
    ops, impl = [], []
    from lightstreamer_adapter.interfaces.metadata import Mode
    for method in ari.META_POST_INIT:
        for j in range(n):
            fixed, tail = gen_request(method, R)
            if method in ("GIT", "GUI") and tail and len(tail) > 3:
                tail = tail[:3]
            toks = ari.encode_args(method, fixed, tail, R if j % 2 else None)
            if j % 10 == 9:
                toks, _, _ = malform(method, toks, R)
            nitems = len(tail) if method in ("GIT", "GUI") and tail else 0
            script, kind = gen_script(method, nitems, R)
            ans, log, reply = run_meta(method, toks, script)
            ops.append("meta %s %d %s %s" % (method, len(toks), " ".join(C.hx(t) for t in toks), script_toks(script)))
            ops[-1] = " ".join(ops[-1].split())
            impl.append(" ".join(ans.split()))
            res.distribution["%s_%s_%s" % (method, kind, ans.split(" ; ")[-1].split(" ")[0] if " ; " in ans else "parse-error")] += 1
            res.nontrivial.add((method, kind, tuple(toks), ans))
            if ans.startswith("err OTHER") or ans.startswith("err UNNAMED"):
                res.violation("decode-error-type:" + method, "decoding a %s request raised %s instead of the protocol error naming %s" % (method, ans[4:], method),
                              {"method": method, "tokens": toks})
            if j % 10 == 9 or ans.startswith("err"):
                continue
            # ---- oracles on the real code (C04 dispatch/kind, C06 wiring, C07 no-line-on-unsupported)
            inp = {"method": method, "tokens": toks, "script": [(k, repr(v)) for k, v in script]}
            if method in WIRING:
                want = expected_first_call(method, fixed, tail)
                if not log or log[0][0] != WIRING[method] or log[0][1] != want:
                    res.violation("wiring:" + method, "adapter received %r, request carried %r" % (log[:1], want), inp)
                if len(log) != {"NUS": None, "NUA": None}.get(method, 1) and method not in ("NUS", "NUA"):
                    res.violation("dispatch-count:" + method, "adapter method invoked %d times" % len(log), inp)
            if method in ("GIT", "GUI"):
                items = expected(method, fixed, tail)
                items = items if method == "GIT" else items["items"]
                user = () if method == "GIT" else (fixed[0],)
                names = (["mode_may_be_allowed"] * 4 + ["get_distinct_snapshot_length", "get_min_source_frequency"]) if method == "GIT" else \
                    (["ismode_allowed"] * 4 + ["get_allowed_buffer_size", "get_allowed_max_item_frequency"])
                want_calls = []
                for it in items:
                    for q, nm in enumerate(names):
                        want_calls.append((nm, user + (it,) + ((list(Mode)[q],) if q < 4 else ())))
                ncalls = len(script) if kind == "raise" else len(want_calls)
                if log != want_calls[:ncalls]:
                    res.violation("wiring:" + method, "adapter call sequence differs from the request's items", inp)
            if kind == "raise":
                e = script[-1][1]
                if reply is None:
                    res.violation("error-reply-missing:" + method, "adapter raised %r but no error reply was produced" % (e,), inp)
                else:
                    try:
                        m_, k_, data = ari.decode_reply(reply)
                        if k_ != "error" or m_ != method or data[1] != str(e):
                            res.violation("error-reply:" + method, "error reply %r does not carry str(exception)=%r" % (reply, str(e)), inp)
                    except (ari.BadReply, ValueError, IndexError, UnicodeDecodeError) as ex:
                        res.violation("error-reply-malformed:" + method, "%r: %s" % (reply, ex), inp)
            elif unsupported_in_script(method, script):
                if reply is not None:
                    res.violation("unsupported-type-produces-line:" + method, "a value of an unsupported type yielded the line %r" % reply, inp)
                elif not ans.endswith("remoting"):
                    res.violation("unsupported-type-not-protocol-error:" + method, "a value of an unsupported type escaped as %s" % ans.split(" ; ")[-1], inp)
            elif kind == "ok" and reply is None:
                res.violation("reply-missing:" + method, "well-typed adapter returns but no reply: " + ans.split(" ; ")[-1], inp)
    res.sample({"op": ops[0], "impl": impl[0]})
    res.sample({"op": ops[len(ops) // 2], "impl": impl[len(ops) // 2]})
    diff(res, ops, impl)
    return res


# ------------------------------------------------------------------ stream: writers (C07)
def text_or(R, wrong):
    return WRONG_TEXT(R) if wrong else gen_text(R, allow_none=R.random() < 0.15)


def WRONG_TEXT(R):
    return R.choice([0, 1, 5, True, False, 2.5, 0.0, [1], [], object(), {"a": 1}, ("x",), {}])


def is_text(x):
    return x is None or isinstance(x, (str, bytes))


def as_str(x):
    return x.decode("utf-8") if isinstance(x, bytes) else x


def gen_bytes(R):
    n = R.choice([0, 1, 2, 3, 4, 5, 16, 57, 58, 70, 300])
    return bytes(R.randrange(256) for _ in range(n)) if R.random() < 0.8 else bytes(range(256))[R.randrange(200):][:n]


def stream_writers(tier):
    p, dp, mp = mods()
    from lightstreamer_adapter.interfaces.metadata import Mode
    R = C.rng("writers")
    res = Result("writers-differential")
    n = {"quick": 450, "search": 1500, "thorough": 18000}[tier]
    ops, impl = [], []

    def run(op, fn, supported, decode_check, inp):
        try:
            line = fn()
            a = "ok " + C.hx(line)
        except p.RemotingException:
            line, a = None, "err remoting"
        except Exception as e:
            line, a = None, "err type"
        ops.append(" ".join(op.split()))
        impl.append(a)
        res.distribution[op.split()[1] + ("_ok" if line is not None else "_" + a.split()[1])] += 1
        res.nontrivial.add(op)
        if supported is None:            # container-shape case (I-5): fidelity only
            return
        if not supported:
            if line is not None:
                res.violation("unsupported-type-produces-line:" + op.split()[1], "unsupported type yielded %r" % line, inp)
            elif a != "err remoting":
                res.violation("unsupported-type-not-protocol-error:" + op.split()[1], "unsupported type raised a non-protocol error", inp)
            return
        if line is None:
            res.violation("writer-rejects-supported:" + op.split()[1], "well-typed data rejected: " + a, inp)
            return
        try:
            got = ari.decode_reply(line)
            ok = decode_check(got)
        except (ari.BadReply, ValueError, IndexError, UnicodeDecodeError, Exception) as e:
            got, ok = "undecodable: %s" % e, False
        if not ok:
            res.violation("reply-does-not-decode:" + op.split()[1], "line %r decodes to %r" % (line, got), inp)

    for j in range(n):
        wrong = j % 4 == 3
        # ---- UD3
        item, rid = text_or(R, wrong and R.random() < 0.3), text_or(R, wrong and R.random() < 0.3)
        snap = R.choice([True, False]) if not (wrong and R.random() < 0.3) else R.choice([0, 1, None, "1", 2.0])
        k = R.choice([0, 1, 1, 2, 4, 8])
        ev = {}
        for q in range(k):
            key = ("%s<%d>" % (gen_text(R, False)[:5], q)) if not (wrong and R.random() < 0.2) else R.choice([0, 1, False, 2.5, None, (1,)])
            c = R.random()
            val = gen_text(R) if c < 0.5 else gen_bytes(R) if c < 0.8 else None
            if wrong and R.random() < 0.3:
                val = R.choice([0, 1, True, 2.5, [b"x"], ["a"], object(), {"a": "b"}])
            ev[key] = val
        evv = R.choice([ev, ev, ev, None]) if not (wrong and R.random() < 0.1) else R.choice([5, "str", [("a", "b")], 0, ""])
        if isinstance(evv, dict):
            evtok = "ED %d %s" % (len(evv), " ".join(ari.py_tok(a) + " " + ari.py_tok(b) for a, b in evv.items()))
            sup = all(is_text(x) for x in (item, rid)) and isinstance(snap, bool) and \
                all(is_text(a) and is_text(b) for a, b in evv.items())
        elif evv is None:
            evtok, sup = "EN", all(is_text(x) for x in (item, rid)) and isinstance(snap, bool)
        else:
            evtok = "EO:" + ("t" if evv else "f")
            sup = None if (all(is_text(x) for x in (item, rid)) and isinstance(snap, bool)) else False
            if sup is False and evv:
                sup = None
        def chk_ud3(got, item=item, rid=rid, snap=snap, evv=evv):
            want_ev = [(as_str(a), (b if isinstance(b, bytes) else b)) for a, b in (evv or {}).items()]
            return got == ("UD3", "update", (as_str(item), as_str(rid), snap, want_ev))
        run("w ud3 %s %s %s %s" % (ari.py_tok(item), ari.py_tok(rid), ari.py_tok(snap), evtok),
            lambda: dp.write_update_map(item, rid, snap, evv), sup, chk_ud3,
            {"writer": "write_update_map", "args": repr((item, rid, snap, evv))})
        # ---- EOS / CLS
        for nm, fn in (("eos", dp.write_eos), ("cls", dp.write_cls)):
            a, b = text_or(R, wrong and R.random() < 0.4), text_or(R, wrong and R.random() < 0.4)
            run("w %s %s %s" % (nm, ari.py_tok(a), ari.py_tok(b)), lambda: fn(a, b), is_text(a) and is_text(b),
                lambda got, a=a, b=b, nm=nm: got == (nm.upper(), "itemevent", (as_str(a), as_str(b))),
                {"writer": "write_" + nm, "args": repr((a, b))})
        # ---- FAL
        msg = gen_text(R, False)
        run("w fal " + C.hx(msg), lambda: dp.write_failure(Exception(msg)), True,
            lambda got, msg=msg: got == ("FAL", "failure", msg), {"writer": "write_failure", "msg": msg})
        # ---- names (GIS / GSC)
        for m, fn in (("GIS", mp.write_get_items), ("GSC", mp.write_get_schema)):
            cnt = R.choice([0, 1, 2, 3, 8])
            xs = [gen_text(R, allow_none=R.random() < 0.1) if R.random() < 0.85 else (gen_text(R, False) or "b").encode("utf-8") for _ in range(cnt)]
            v = R.choice([xs, xs, tuple(xs), None]) if not wrong else R.choice(
                [xs + [WRONG_TEXT(R)], [WRONG_TEXT(R)] + xs, "abc", b"xy", 5, 0, 2.5, True, False, object(), [[]], [0], [False, "a"]])
            if isinstance(v, (list, tuple)):
                sup = all(is_text(x) for x in v)
            elif v is None:
                sup = True
            else:
                sup = None
            run("w names %s %s" % (m, ari.py_tok(v)), lambda: fn(v), sup,
                lambda got, v=v, m=m: got == (m, "names", [as_str(x) for x in (v or [])]),
                {"writer": fn.__name__, "arg": repr(v)})
        # ---- item data (GIT / GUI)
        for m, fn, k1, k2 in (("GIT", mp.write_get_item_data, "distinctSnapshotLength", "minSourceFrequency"),
                              ("GUI", mp.write_get_user_item_data, "allowedBufferSize", "allowedMaxFrequency")):
            cnt = R.choice([0, 1, 2, 3])
            recs, sup = [], True
            for _ in range(cnt):
                a = gen_int(R) if not (wrong and R.random() < 0.3) else R.choice([True, False, 2.0, "7", None, b"1"])
                b = gen_float(R) if not (wrong and R.random() < 0.3) else R.choice([1, 0, True, "2.5", None])
                ms = R.choice([None, [], list(Mode), [Mode.MERGE], [Mode.COMMAND, Mode.RAW], [Mode.RAW, Mode.MERGE, Mode.DISTINCT]])
                R.shuffle(ms) if ms else None
                recs.append({k1: a, k2: b, "allowedModeList": ms})
                sup = sup and isinstance(a, int) and not isinstance(a, bool) and isinstance(b, float)
            toks = " ".join("%s %s %s" % (ari.py_tok(r[k1]), ari.py_tok(r[k2]), ari.py_tok(r["allowedModeList"])) for r in recs)
            def chk_items(got, recs=recs, m=m, k1=k1, k2=k2):
                want = [(r[k1], r[k2], None if r["allowedModeList"] is None else "".join(x.value for x in r["allowedModeList"])) for r in recs]
                if got[:2] != (m, "itemdata") or len(got[2]) != len(want):
                    return False
                return all(g[0] == w[0] and (g[1] == w[1]) and repr(g[1]) == repr(w[1]) and g[2] == w[2] for g, w in zip(got[2], want))
            run("w itemdata %s %s" % (m, toks), lambda: fn(R.choice([recs, recs or None])), sup, chk_items,
                {"writer": fn.__name__, "arg": repr(recs)})
        # ---- notify user
        for m in ("NUS", "NUA"):
            bw = gen_float(R) if not (wrong and R.random() < 0.5) else R.choice([1, 0, True, "2.5", None])
            w = R.choice([True, False]) if not (wrong and R.random() < 0.5) else R.choice([1, 0, None, "1"])
            run("w nu %s %s %s" % (m, ari.py_tok(bw), ari.py_tok(w)), lambda: mp.write_notiy_user(getattr(mp.Method, m), bw, w),
                isinstance(bw, float) and isinstance(w, bool),
                lambda got, bw=bw, w=w, m=m: got[:2] == (m, "notifyuser") and repr(got[2][0]) == repr(bw) and got[2][1] is w,
                {"writer": "write_notiy_user", "args": repr((m, bw, w))})
        # ---- credentials / init replies
        u, pw = R.choice([None, "", gen_text(R, False)]), R.choice([None, "", gen_text(R, False)])
        def chk_rac(got, u=u, pw=pw):
            want = ([("user", u)] if u is not None else []) + ([("password", pw)] if pw is not None else []) + \
                [("enableClosePacket", "true"), ("SDK", "Python Adapter SDK")]
            return got == ("RAC", "params", want)
        run("w rac %s %s" % (ari.c_optstr(u), ari.c_optstr(pw)), lambda: p.write_credentials(u, pw), True, chk_rac,
            {"writer": "write_credentials", "args": repr((u, pw))})
        ver = R.choice([None, "1.8.2", "1.8.3", gen_text(R, False)])
        for m, mod in (("MPI", mp), ("DPI", dp)):
            run("w initok %s %s" % (m, ari.c_optstr(ver)), lambda: mod.write_init({"ARI.version": ver} if ver is not None else None), True,
                lambda got, m=m, ver=ver: got == ((m, "params", [("ARI.version", ver)]) if ver is not None else (m, "void", None)),
                {"writer": "write_init", "version": ver})
        # ---- scalar encoders
        v = R.choice([gen_text(R), gen_bytes(R), WRONG_TEXT(R), WRONG(R)])
        run("w encstr " + ari.py_tok(v), lambda: p.encode_string(v), None, None, None)
        run("w encval " + ari.py_tok(v), lambda: dp._encode_value(v), None, None, None)
    voids = {"SUB": dp.write_sub, "USB": dp.write_unsub, "NNS": mp.write_notify_new_session, "NSC": mp.write_notify_session_close,
             "NUM": mp.write_notify_user_message, "NNT": mp.write_notify_new_tables, "NTC": mp.write_notify_tables_close,
             "MDA": mp.write_notify_device_acces, "MSA": mp.write_subscription_activation, "MDC": mp.write_device_token_change}
    for m, fn in voids.items():
        run("w void " + m, fn, True, lambda got, m=m: got == (m, "void", None), {"writer": fn.__name__})
    res.sample({"op": ops[0], "impl": impl[0]})
    res.sample({"op": ops[7], "impl": impl[7]})
    diff(res, ops, impl)
    return res


# ------------------------------------------------------------------ stream: exception mapping (C08)
ARI_DESIGNATION = {   # written from the property text / the ':raises' clauses of interfaces/*.py
    "DPI": {"DataProviderError": "D"}, "MPI": {"MetadataProviderError": "M"},
    "SUB": {"SubscribeError": "U", "FailureError": "F"}, "USB": {"SubscribeError": "U", "FailureError": "F"},
    "NUS": {"AccessError": "A", "CreditsError": "C"}, "NUA": {"AccessError": "A", "CreditsError": "C"},
    "NNS": {"CreditsError": "C", "NotificationError": "N", "ConflictingSessionError": "X"},
    "NSC": {"NotificationError": "N"}, "GIS": {"ItemsError": "I"}, "GSC": {"ItemsError": "I", "SchemaError": "S"},
    "GIT": {}, "GUI": {}, "NUM": {"CreditsError": "C", "NotificationError": "N"},
    "NNT": {"CreditsError": "C", "NotificationError": "N"}, "NTC": {"NotificationError": "N"},
    "MDA": {"CreditsError": "C", "NotificationError": "N"}, "MSA": {"CreditsError": "C", "NotificationError": "N"},
    "MDC": {"CreditsError": "C", "NotificationError": "N"}}


def error_writer(m):
    _, dp, mp = mods()
    return {"DPI": lambda e: dp.write_init(exception=e), "SUB": dp.write_sub, "USB": dp.write_unsub,
            "MPI": lambda e: mp.write_init(exception=e),
            "NUS": lambda e: mp.write_notiy_user(mp.Method.NUS, exception=e),
            "NUA": lambda e: mp.write_notiy_user(mp.Method.NUA, exception=e),
            "NNS": mp.write_notify_new_session, "NSC": mp.write_notify_session_close,
            "GIS": lambda e: mp.write_get_items(exception=e), "GSC": lambda e: mp.write_get_schema(exception=e),
            "GIT": lambda e: mp.write_get_item_data(exception=e), "GUI": lambda e: mp.write_get_user_item_data(exception=e),
            "NUM": mp.write_notify_user_message, "NNT": mp.write_notify_new_tables, "NTC": mp.write_notify_tables_close,
            "MDA": mp.write_notify_device_acces, "MSA": mp.write_subscription_activation, "MDC": mp.write_device_token_change}[m]


def stream_exc(tier):
    R = C.rng("exc")
    res = Result("exception-matrix-differential")
    lib, other, userdef = exc_classes()
    reps = {"quick": 4, "search": 10, "thorough": 120}[tier]
    ops, impl = [], []
    for m in ari.METHODS:
        for cls in lib + other + userdef:
            for r in range(reps):
                e = make_exc(cls, R, msg=None if r else "plain message")
                try:
                    line = error_writer(m)(e)
                except Exception as ex:
                    res.violation("error-writer-raises:" + m, "%s error writer raised %r for %r" % (m, ex, e), {"method": m, "class": cls.__name__})
                    continue
                ops.append("exc %s %s" % (m, ari.exc_tok(e)))
                impl.append("ok " + C.hx(line))
                res.nontrivial.add((m, cls.__name__, line))
                res.distribution["%s_%s" % (m, cls.__name__)] += 1
                inp = {"method": m, "class": cls.__name__, "exception": repr(e), "line": line}
                try:
                    mm, kind, data = ari.decode_reply(line)
                except (ari.BadReply, ValueError, IndexError, UnicodeDecodeError) as ex:
                    res.violation("error-reply-malformed:" + m, "%r: %s" % (line, ex), inp)
                    continue
                if kind != "error" or mm != m:
                    res.violation("error-reply-shape:" + m, "not an error reply of %s: %r" % (m, line), inp)
                    continue
                name = cls.__name__
                want = ARI_DESIGNATION[m].get(name, "")
                unspecified = (name == "ConflictingSessionError" and m != "NNS") or cls in userdef
                msg_ok = data[1] == (str(e))
                if not msg_ok:
                    res.violation("error-reply-message:" + m, "first payload token decodes to %r, str(exception) is %r" % (data[1], str(e)), inp)
                if not unspecified and data[0] != want:
                    res.violation("error-subtype:%s:%s" % (m, name), "subtype %r, ARI designates %r" % (data[0], want), inp)
                if data[0] in ("C", "X"):
                    if data[2] != e.client_error_code or data[3] != e.client_user_msg or (data[0] == "X" and data[4] != e.conflicting_session_id):
                        res.violation("error-payload:" + m, "payload %r does not carry the exception's code / user message / session id" % (data,), inp)
    res.exhaustive = True     # in the (method, class) dimension: the full 18 x 16 matrix
    res.sample({"op": ops[0], "impl": impl[0]})
    res.sample({"op": ops[-1], "impl": impl[-1]})
    diff(res, ops, impl)
    return res


# ------------------------------------------------------------------ stream: two decoders at once (only when the codec is no longer pure)
def stream_concurrent_decode(tier):
    """The request decoders are modelled as pure functions, and `Props/StateCodec` ties that assumption to the source.  When the
    tie breaks (a decoder now writes module-level or class-level state) this stream looks for the failing input: two or three
    threads — the reader threads of a Metadata and a Data server in one process — decode their own requests at the same
    time under the scheduler, preempted line by line inside the flagged functions, and every thread must get exactly what it
    gets alone (the same value, or the protocol error naming ITS method).  With the tie intact a handful of runs are made."""
    import shim
    import extract
    import random as _random
    p, _, _ = mods()
    R = C.rng("concurrent-decode")
    res = Result("concurrent-decode-exploration")
    flagged = extract.state_functions()
    codec_files = [f for f in flagged if f in ("protocol.py", "data_protocol.py", "metadata_protocol.py")]
    n = {"quick": 150, "search": 800, "thorough": 3000}[tier] if codec_files else 10
    res.distribution["codec_functions_flagged"] = sum(len(flagged[f]) for f in codec_files)
    for i in range(n):
        jobs = []
        for _ in range(R.choice([2, 2, 3])):
            method = R.choice(ari.METHODS)
            fixed, tail = gen_request(method, R)
            toks = ari.encode_args(method, fixed, tail)
            if R.random() < 0.6:
                toks, _, _ = malform(method, toks, R)
            jobs.append((method, list(toks)))
        alone = [c_read(m, t)[0] for m, t in jobs]
        seed = R.getrandbits(40)
        SR = _random.Random(seed)
        sched = shim.Sched(lambda names, ops: SR.choice(names))
        sched.fine = _random.Random(seed ^ 0xC0DEC)
        sched.fine_files = ("protocol.py", "data_protocol.py", "metadata_protocol.py")
        sched.fine_p = R.choice([0.3, 0.7, 1.0])
        sched.fine_server_factor = 1.0
        if codec_files:
            sched.fine_focus = {f for fs in flagged.values() for f in fs}
        sched.max_chunks = 100000
        shim.SCHED = sched
        together = [None] * len(jobs)
        try:
            for k, (m, t) in enumerate(jobs):
                def body(k=k, m=m, t=t):
                    together[k] = c_read(m, t)[0]
                sched.spawn("R%d" % k, body)
            sched.run()
        finally:
            sched.teardown()
            shim.SCHED = None
        res.traces += 1
        res.evaluations += len(jobs)
        res.distribution["line_preemptions"] += sum(1 for ch in sched.chunks if ch["op"][0] == "line")
        res.nontrivial.add(seed)
        for k, (m, t) in enumerate(jobs):
            if together[k] != alone[k]:
                res.violation("decode-depends-on-other-thread", "read_%s of %r gives %r alone but %r while %s is being decoded by another thread"
                              % (m, t[:6], alone[k], together[k], ", ".join(j[0] for q, j in enumerate(jobs) if q != k)),
                              {"jobs": jobs, "seed": seed})
                break
    return res
