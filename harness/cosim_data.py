"""Lock-step co-simulation of the REAL DataProviderServer under the cooperative scheduler (shim.py)
against the Lean model Conc/Data.lean, plus the property oracles (C01, C02, C03, C16, C17, C19) evaluated
on the real trace."""
import re
import common as C
import ari
import shim

NOTIFY = re.compile(r"^(\d+)\|(UD3|EOS|CLS|FAL)\|")


def strip_ts(msg):
    m = NOTIFY.match(msg)
    return msg[len(m.group(1)) + 1:] if m else msg


# --------------------------------------------------------------------------------- scenario
def add_tail(R, scn, kinds=None):
    """how the connection ends (C20): an honoured close request as the last line, the peer closing / resetting after a prefix
    of the bytes, or the k-th write failing; with an I/O handler absent / returning True / returning False"""
    tail = R.choice(kinds or [None, "close", "close", "close-first", "eof", "reset", "timedout", "unreach", "bare", "wfail", "wfail"])
    scn["tail"] = tail
    scn["io_handler"] = R.choice(["absent", True, False])
    scn["probe"] = False
    if tail == "close":
        scn["chunks"] = scn["chunks"] + ["0|CLOSE%s\r\n" % R.choice(["", "|S|reason|S|shutdown"])]
    elif tail == "close-first":
        # the Proxy Adapter closes at once: the close request is the only line, often readable at connect time (close packets
        # are honoured before the init request too)
        scn["chunks"] = ["0|CLOSE%s\r\n" % R.choice(["", "|S|reason|S|shutdown"])]
        scn["requests"] = []
        scn["early"] = R.random() < 0.7
        scn["tail"] = tail = "close"
    elif tail in ("eof", "reset", "timedout", "unreach", "bare"):
        stream = "".join(scn["chunks"])
        cut = R.choice([0, len(stream), R.randrange(0, len(stream) + 1), len("1|DPI|S|ARI.version|S|1.9.1\r\n")])
        out, left = [], cut
        for c in scn["chunks"]:
            if left <= 0:
                break
            out.append(c[:left])
            left -= len(c)
        scn["chunks"] = out
        scn["end"] = tail
    elif tail == "wfail":
        scn["fail_write_at"] = R.randrange(1, 10)
    return scn


def gen_scenario(R, size="small", max_items=3):
    nitems = min(max_items, R.choice([1, 1, 2, 2, 3]))
    items = ["item%d" % i for i in range(1, nitems + 1)]
    if R.random() < 0.12:
        # a very long item name: its request lines take three or more reads of 1024 bytes
        items[0] = items[0] + "_" + "x" * R.choice([1100, 2500])
    seqs = []
    for it in items:
        n = R.choice([1, 2, 3, 4, 5, 6] if size == "small" else [2, 4, 6, 8, 10, 12])
        seqs.append([(it, "SUB" if j % 2 == 0 else "USB") for j in range(n)])
    reqs = []
    while any(seqs):
        s = R.choice([q for q in seqs if q])
        reqs.append(s.pop(0))
    requests = [{"id": "r%d" % (i + 1), "method": m, "item": it} for i, (it, m) in enumerate(reqs)]

    def inside_events():
        out = []
        for _ in range(R.choice([0, 0, 1, 2])):
            out.append(gen_event(R, items))
        return out
    script = {}
    for it in items:
        script[it] = {
            "snap": [R.choice(["T", "F", "F", "raise", "N"]) for _ in range(8)],
            "sub": [{"out": R.choice(["ok", "ok", "ok", "SubscribeError", "FailureError", "RuntimeError"]), "inside": inside_events()} for _ in range(8)],
            "usb": [{"out": R.choice(["ok", "ok", "ok", "SubscribeError", "RuntimeError"]), "inside": inside_events() if R.random() < 0.3 else []} for _ in range(8)],
        }
    # some subscribe() calls hand their events to a helper thread of the adapter and wait for it before returning
    # (the usual "push the snapshot from a worker, then return" pattern)
    for it in items:
        for entry in script[it]["sub"]:
            if entry["inside"] and R.random() < 0.3:
                entry["helper"] = True
    ext = []
    for _ in range(R.choice([0, 0, 1, 1, 2])):
        ext.append([gen_event(R, items) for _ in range(R.choice([1, 2, 4]))])
    # segmentation of the inbound stream
    def tok(name):
        # the Proxy Adapter may send any standard URL-encoding of the item name (an escaped unreserved character, either hex
        # case): the name the adapter sees and the name on the outbound lines are the decoded one, encoded the library's way
        if len(name) < 40 and R.random() < 0.25:
            k = R.randrange(len(name))
            h = "%%%02X" % ord(name[k])
            return name[:k] + (h if R.random() < 0.5 else h.lower()) + name[k + 1:]
        return name
    lines = ["1|DPI|S|ARI.version|S|1.9.1\r\n"] + ["%s|%s|S|%s%s" % (r["id"], r["method"], tok(r["item"]), R.choice(["\r\n", "\n"])) for r in requests]
    mode = R.choice(["line", "line", "merge", "split"])
    stream = "".join(lines)
    if mode == "line":
        chunks = lines
    elif mode == "merge":
        chunks, i = [], 0
        while i < len(lines):
            k = R.choice([1, 2, 3])
            chunks.append("".join(lines[i:i + k]))
            i += k
    else:
        cuts = sorted(R.sample(range(1, len(stream)), min(len(stream) - 1, R.choice([1, 2, 5]))))
        chunks = [stream[a:b] for a, b in zip([0] + cuts, cuts + [len(stream)])]
    # the reader asks for 1024 bytes at a time: deliver at most 1000 per chunk so that one delivery is one read
    chunks = [c[j:j + 1000] for c in chunks for j in range(0, len(c), 1000)]
    cred = lambda: R.choice([None, None, "", "user name", "p|w%+é"])
    slow = R.randrange(2, 12) if R.random() < 0.08 else None      # a write the slowly reading peer takes 2.5 s to accept
    return {"kind": "data", "slow_write_at": slow, "pool": R.choice([1, 1, 2, 3, 4]), "items": items, "requests": requests, "script": script,
            "ext": ext, "chunks": chunks, "probe": R.random() < 0.5, "user": cred(), "password": cred(),
            "sibling": R.choice([None, None, ("sibling-user", "sibling-password"), (None, None), ("", None)]),
            "early": R.random() < 0.3}


def gen_event(R, items):
    it = R.choice(items)
    k = R.random()
    if k < 0.6:
        n = R.choice([0, 1, 2])
        ev = {"f%d" % j: R.choice(["v%d" % R.randrange(100), "", None, b"\x00\xffbin", "a b|c"]) for j in range(n)}
        if R.random() < 0.03:
            ev["big"] = "x" * 70000          # a message larger than 64 KiB
        bad = R.random()
        if bad < 0.05:
            ev["bad"] = R.choice([5, 0, True, 2.5])                    # a field value of an unsupported type
            return {"kind": "upd", "item": it, "snap": R.choice([True, False]), "ev": ev, "illtyped": True}
        if bad < 0.07:
            return {"kind": "upd", "item": it, "snap": R.choice([1, 0, "1", None]), "ev": ev or {"f": "v"}, "illtyped": True}
        return {"kind": "upd", "item": it, "snap": R.choice([True, False]), "ev": ev if R.random() < 0.9 else None}
    if k < 0.68:
        return {"kind": "fal", "item": it, "msg": R.choice(["feed down", "boom|x y", "é€"])}
    return {"kind": R.choice(["eos", "cls"]), "item": it}


class _Detail:
    """a non-text exception detail (a wrapped exception, an error object): only its str() is specified"""
    def __init__(self, text):
        self.text = text

    def __str__(self):
        return self.text


def make_exc(name, msg, wrapped=False):
    from lightstreamer_adapter.interfaces.data import SubscribeError, FailureError
    cls = {"SubscribeError": SubscribeError, "FailureError": FailureError, "RuntimeError": RuntimeError}[name]
    # `raise SubscribeError(e)` with e an exception or any object is as legal as a text message: the reply carries str(error)
    return cls((ValueError(msg) if len(msg) % 2 else _Detail(msg)) if wrapped else msg)


# --------------------------------------------------------------------------------- running the real server
class Run:
    pass


def run_real(scn, choose):
    """Runs the scenario on the real server; `choose(names, ops)` picks the next thread. Returns a Run."""
    import lightstreamer_adapter.server as S
    import lightstreamer_adapter.subscription as SUBM
    from lightstreamer_adapter.interfaces.data import DataProvider
    sched = shim.Sched(choose)
    if scn.get("fine_seed") is not None:
        import random as _random
        sched.fine = _random.Random(scn["fine_seed"])
        sched.fine_p = scn.get("fine_p", 0.15)
        sched.fine_focus = set(scn.get("fine_focus") or []) or None
        if scn.get("fine_files"):
            sched.fine_files = tuple(sorted(set(sched.fine_files) | set(scn["fine_files"])))
        sched.max_chunks = 200000
    sock = shim.Socket()
    saved = shim.install(sched, sock, cpu=8)
    run = Run()
    run.scn, run.sched, run.sock = scn, sched, sock
    registry = {}          # item -> [manager objects in creation order]
    cur = {"rid": None, "held": None}
    counters = {}
    helpers = [0]
    orig_init = SUBM._ItemTaskManager.__init__
    orig_sub, orig_usb = S.DataProviderServer._on_sub, S.DataProviderServer._on_usb

    def mgr_init(self, item_name, mgr):
        orig_init(self, item_name, mgr)
        self._lock.label = "item"
        registry.setdefault(item_name, []).append(self)

    def on_sub(self, request_id, data):
        cur["rid"] = request_id
        return orig_sub(self, request_id, data)

    def on_usb(self, request_id, data):
        cur["rid"] = request_id
        return orig_usb(self, request_id, data)
    SUBM._ItemTaskManager.__init__ = mgr_init
    S.DataProviderServer._on_sub, S.DataProviderServer._on_usb = on_sub, on_usb
    orig_do, orig_late = SUBM.ItemTask.do_task, SUBM.ItemTask.do_late_task

    def do_task(self):
        sched.event("task", sched.me().name, self.code, "do", "begin")
        try:
            return orig_do(self)
        finally:
            sched.event("task", sched.me().name, self.code, "do", "end")

    def do_late_task(self):
        sched.event("task", sched.me().name, self.code, "late", "begin")
        try:
            return orig_late(self)
        finally:
            sched.event("task", sched.me().name, self.code, "late", "end")
    SUBM.ItemTask.do_task, SUBM.ItemTask.do_late_task = do_task, do_late_task

    def lsn_call(listener, ev):
        me = sched.me()
        me.meta["lsn"] = ev
        sched.event("lsn-call", me.name, ev)
        if ev["kind"] == "upd":
            listener.update(ev["item"], ev["ev"], ev["snap"])
        elif ev["kind"] == "fal":
            listener.failure(RuntimeError(ev["msg"]))
        elif ev["kind"] == "eos":
            listener.end_of_snapshot(ev["item"])
        else:
            listener.clear_snapshot(ev["item"])
        me.meta["lsn"] = None
        sched.event("lsn-return", me.name)

    class Adapter(DataProvider):
        def initialize(self, params, config_file=None):
            sched.event("adapter-sync", "initialize")

        def set_listener(self, listener):
            sched.event("adapter-sync", "set_listener")
            self.listener = listener
            for e, calls in enumerate(scn["ext"]):
                def body(calls=calls):
                    for ev in calls:
                        lsn_call(listener, ev)
                sched.spawn("E%d" % (e + 1), body)

        def _call(self, m, item):
            sched.park(("abegin", m, item))
            sched.event("ab", m, item)
            k = counters.get((m, item), 0)
            counters[(m, item)] = k + 1
            sc = scn["script"][item][m]
            entry = sc[k % len(sc)]
            if m == "snap":
                entry = {"out": entry, "inside": []}
            out = entry["out"]
            if entry.get("helper") and entry["inside"]:
                # an adapter-owned helper thread submits the events; the call returns only when it is done
                flag = [False]
                helpers[0] += 1

                def body(evs=entry["inside"], flag=flag):
                    for ev in evs:
                        lsn_call(self.listener, ev)
                    flag[0] = True
                sched.spawn("E%d" % (20 + helpers[0]), body)
                sched.park(("aend", m, item, out), cond=lambda: flag[0])
            else:
                for ev in entry["inside"]:
                    lsn_call(self.listener, ev)
                sched.park(("aend", m, item, out))
            sched.event("ae", m, item, out)
            if out in ("SubscribeError", "FailureError", "RuntimeError"):
                raise make_exc(out, "%s failed for %s #%d" % (m, item, k), wrapped=(k % 3 == 1))
            if out == "raise":
                raise make_exc("RuntimeError", "snapshot query failed")
            return {"T": True, "F": False, "N": None}.get(out)

        def issnapshot_available(self, item):
            return self._call("snap", item)

        def subscribe(self, item):
            self._call("sub", item)

        def unsubscribe(self, item):
            self._call("usb", item)

    srv = S.DataProviderServer(Adapter(), ("proxy", 6661), keep_alive=0, thread_pool_size=scn["pool"])
    srv._subscription_mgr._active_items_lock.label = "mgr"
    if scn.get("io_handler", "absent") != "absent":
        class H(S.ExceptionHandler):
            def handle_exception(self, e):
                return True                     # the default handling (failure notification) runs as without a handler
            def handle_ioexception(self, e):
                sched.event("iohandler", sched.me().name, type(e).__name__)
                return scn["io_handler"]
        srv.set_exception_handler(H())
    sock.fail_write_at = scn.get("fail_write_at")
    sock.fail_write_kind = ["pipe", "reset", "timedout", "unreach", "bare"][(scn.get("fail_write_at") or 0) % 5]
    sock.slow_write_at = scn.get("slow_write_at")
    srv.remote_user, srv.remote_password = scn.get("user"), scn.get("password")
    run.srv = srv
    if scn.get("sibling"):
        # the usual deployment: a Metadata server configured in the same process (never started here) with its own name,
        # credentials, keepalive and pool size — two servers are two independent objects
        from lightstreamer_adapter.interfaces.metadata import MetadataProvider

        class _SiblingAdapter(MetadataProvider):
            pass
        sib = S.MetadataProviderServer(_SiblingAdapter(), ("proxy", 6663), name="sibling", keep_alive=7, thread_pool_size=5)
        sib.remote_user, sib.remote_password = scn["sibling"]
        run.sibling = sib

    def snapshot():
        sm = srv._subscription_mgr
        its = []
        for item in sorted(registry):
            gens = registry[item]
            act = sm._active_items.get(item)
            acts = "-" if act is None else str(gens.index(act))
            held = "-"
            if cur["held"] and cur["held"][0] == item:
                held = "%s:%d" % (cur["held"][1], cur["held"][2])
            gs = "".join("(q=%s;code=%s;run=%s;queued=%d;last=%s)" % (
                ",".join(t.code for t in g._tasks_deq), g._code if g._code is not None else "-",
                "t" if g._isrunning else "f", g._queued, "t" if g._last_subscribe_outcome else "f") for g in gens)
            its.append("%s[act=%s,held=%s,gens=%s]" % (item, acts, held, gs))
        ex = srv._executor
        sq = srv._request_manager._reply_sender._send_queue if srv._request_manager else None
        return "items:%s|pool:q=%s;run=%d|sendq=%d|init=%s|sock=%s" % (
            " ".join(its), ",".join(ex.workq), ex.running, len(sq.items) if sq else 0, "t" if srv.init_expected else "f",
            "closed" if sock.closed else "open")
    run.registry, run.cur = registry, cur

    def main():
        srv.start()

    def proxy():
        for i, c in enumerate(scn["chunks"]):
            sched.park(("deliver", c))
            sock.inbound.append(c.encode("ascii"))
            sched.event("deliver", c)
        if scn.get("end"):
            sched.park(("eoi",))
            sock.in_eof = scn["end"]
    try:
        if scn.get("early"):
            # request bytes already readable at connect time: the proxy delivers everything before start()
            pt = sched.spawn("P", proxy)
            sched.run(until=lambda: pt.done)
            for ch in sched.chunks:
                ch["snap"] = snapshot()
            sched.spawn("M", main)
        else:
            sched.spawn("M", main)
            sched.spawn("P", proxy)

        # the snapshot hook needs to know when the reader sits between its two lock sections
        def snap_hook():
            ch_tid = sched.current.name if sched.current else None
            return snapshot()
        sched.snapshot = None
        chunks = []
        # run chunk by chunk so that `held` can be maintained from the reader's operations
        hard_limit = 200000 if scn.get("fine_seed") is not None else 6000
        while True:
            before = len(sched.chunks)
            if before >= hard_limit:
                status = "limit"          # e.g. a timed writer that never comes to rest: not quiescent, reported as such
                break
            sched.max_chunks = before + 1
            status = sched.run()
            if len(sched.chunks) == before:
                break
            ch = sched.chunks[-1]
            if ch["tid"] == "R" and ch["op"][0] == "lock":
                if ch["op"][1] == "mgr":
                    item = next((r["item"] for r in scn["requests"] if r["id"] == cur["rid"]), None)
                    act = srv._subscription_mgr._active_items.get(item)
                    cur["held"] = (item, cur["rid"], registry[item].index(act)) if act is not None else None
                else:
                    cur["held"] = None
            ch["snap"] = snapshot()
            # inside an adapter call that waits (the adapter's business), or inside a write the peer is slow to accept (time's)
            ch["blocked_after"] = [t.name for t in sched.threads.values()
                                   if not t.done and t.op and t.op[0] in ("aend", "send-wait") and t.cond is not None and not t.cond()]
            # a library thread waiting for a lock whose owner sits inside an adapter call (C18: no lock may be held across one)
            for t in sched.threads.values():
                lk = t.meta.get("want_lock")
                if not t.done and lk is not None and lk.owner is not None and lk.owner is not t and lk.owner.op[0] in ("aend",) :
                    ch.setdefault("lock_waits", []).append((t.name, lk.label, lk.owner.name, lk.owner.op[1]))
            if status in ("quiescent", "exited", "stopped"):
                break
        run.status = status
        # probe events after quiescence (C19 / C03 drop)
        run.probe_from = len(sched.chunks)
        if scn.get("probe") and status == "quiescent" and hasattr(srv._adapter, "listener"):
            def probe():
                for it in scn["items"]:
                    lsn_call(srv._adapter.listener, {"kind": "upd", "item": it, "snap": False, "ev": {"probe": "1"}})
            sched.spawn("E9", probe)
            while len(sched.chunks) < hard_limit + 2000:
                before = len(sched.chunks)
                sched.max_chunks = before + 1
                status = sched.run()
                if len(sched.chunks) == before:
                    break
                sched.chunks[-1]["snap"] = snapshot()
                sched.chunks[-1]["blocked_after"] = [t.name for t in sched.threads.values()
                                                     if not t.done and t.op and t.op[0] in ("aend", "send-wait") and t.cond is not None and not t.cond()]
                if status in ("quiescent", "exited", "stopped"):
                    break
        run.final_enabled = sorted(t.name for t in sched.enabled())
        run.alive = {t.name: t.op for t in sched.threads.values() if not t.done}
        run.tasks_unfinished = [t.name for t in sched.threads.values() if t.kind == "task" and not (t.started and t.done)]
        run.chunks = sched.chunks
        run.final_snapshot = snapshot()
        run.active_items = dict(srv._subscription_mgr._active_items)
        run.sent = list(sock.sent)
        run.errors = [(t.name, repr(t.error)) for t in sched.threads.values() if t.error is not None]
    finally:
        sched.teardown()
        shim.uninstall(saved)
        SUBM._ItemTaskManager.__init__ = orig_init
        S.DataProviderServer._on_sub, S.DataProviderServer._on_usb = orig_sub, orig_usb
        SUBM.ItemTask.do_task, SUBM.ItemTask.do_late_task = orig_do, orig_late
        try:
            srv._executor.shut = True
        except Exception:
            pass
    return run


# --------------------------------------------------------------------------------- translation for the driver
LIB = re.compile(r"^(R|W|T\d+)$")


def ev_tokens(ev):
    if ev["kind"] == "upd":
        d = ev["ev"]
        evtok = "EN" if d is None else "ED %d %s" % (len(d), " ".join(ari.py_tok(a) + " " + ari.py_tok(b) for a, b in d.items()))
        return "upd %s %s" % (ari.py_tok(ev["snap"]), evtok)
    return ev["kind"]


def exc_tok_named(name, msg):
    return ari.exc_tok(make_exc(name, msg))


def driver_lines(run):
    """One `k …` line per model-relevant chunk; returns (lines, index map to chunks)."""
    scn = run.scn
    lines, idx = ["cosim data %d %s %s %s" % (scn["pool"], ari.c_optstr(scn.get("user")), ari.c_optstr(scn.get("password")),
                                              {"absent": "n", True: "t", False: "f"}[scn.get("io_handler", "absent")])], [None]
    chunks = run.chunks
    lsn_pending = {}      # thread -> event dict of the listener call in progress
    for n, ch in enumerate(chunks):
        tid, op = ch["tid"], ch["op"]
        # listener-call bookkeeping from events (the call is announced in the chunk before its lock section)
        skip = False
        kind = op[0]
        if kind == "start":
            if tid in ("R", "W", "M"):
                o = "tstart"
            else:
                skip = True
        elif kind == "after-start":
            skip = True           # the creator continues after Thread.start(): no model-relevant operation of its own
        elif kind == "send-wait":
            skip = True           # the peer is slow to accept the write: time passes, nothing else
        elif kind == "task-start":
            o = "start"
        elif kind == "lock":
            if op[1] == "item":
                o = "ilock"
            elif tid in lsn_pending and lsn_pending[tid].get("stage") == "called":
                ev = lsn_pending[tid]
                o = "llock %s %s" % (C.hx(ev["item"]), ev_tokens(ev))
                ev["stage"] = "read"
            else:
                o = "mlock"
        elif kind == "put":
            if tid in lsn_pending and lsn_pending[tid].get("kind") == "fal":
                o = "fput " + C.hx(lsn_pending[tid]["msg"])
            elif tid in lsn_pending and lsn_pending[tid].get("stage") == "read" and \
                    any(e[0] == "enqueue" and strip_ts(e[2]).startswith("FAL|E|") for e in ch["events"]):
                msg = next(strip_ts(e[2]) for e in ch["events"] if e[0] == "enqueue")
                o = "xput " + C.hx(ari.dec_text(msg.split("|")[2]) or "")
                lsn_pending[tid]["stage"] = "put"
            elif tid in lsn_pending and lsn_pending[tid].get("stage") == "read":
                o = "lput " + C.hx(lsn_pending[tid]["item"])
                lsn_pending[tid]["stage"] = "put"
            else:
                o = "put"
        elif kind == "abegin":
            o = "abegin"
        elif kind == "aend":
            out = op[3]
            if out in ("SubscribeError", "FailureError", "RuntimeError", "raise"):
                e = [x for x in ch["events"] if x[0] == "ae"]
                # reconstruct the exception exactly as the adapter raises it
                k = sum(1 for c2 in chunks[:n + 1] for x in c2["events"] if x[0] == "ae" and x[1] == op[1] and x[2] == op[2]) - 1
                if out == "raise":
                    o = "aend E " + exc_tok_named("RuntimeError", "snapshot query failed")
                else:
                    o = "aend E " + exc_tok_named(out, "%s failed for %s #%d" % (op[1], op[2], k))
            else:
                o = "aend R " + ("t" if out == "F" else "f")
        elif kind == "recv":
            o = "recv"
        elif kind == "get":
            o = "get " + ("t" if ch["timeout"] else "f")
        elif kind == "send":
            o = "sendfail" if any(e[0] == "send-fails" for e in ch["events"]) else "send"
        elif kind == "join":
            o = "join"
        elif kind == "pool-shutdown":
            o = "poolwait"
        elif kind == "eoi":
            o = "eoi"
        elif kind == "deliver":
            o = "deliver " + C.hx(op[1])
        else:
            o = "unknown-" + str(kind)
        for e in ch["events"]:
            if e[0] == "lsn-call":
                th = e[1]
                me_ev = None
                # find the event dict: announced by the thread itself
                lsn_pending[th] = dict(e[2], stage="called")
            elif e[0] == "lsn-return":
                lsn_pending.pop(e[1], None)
        # attach payloads: the shim stored the full event dict on the thread's meta at call time; recover from scenario order
        if skip:
            continue
        effs = []
        for e in ch["events"]:
            if e[0] == "enqueue":
                effs.append("enq:" + C.hx(strip_ts(e[2])))
            elif e[0] == "submit":
                effs.append("sub:" + e[1][1:])
            elif e[0] == "ab":
                effs.append("ab:%s:%s" % (e[1], C.hx(e[2])))
            elif e[0] == "ae":
                effs.append("ae:%s:%s" % (e[1], C.hx(e[2])))
            elif e[0] == "sent":
                effs.append("sent:" + C.hx(strip_ts(e[1].decode("utf-8"))))
            elif e[0] == "socket-close":
                effs.append("sockclose")
            elif e[0] == "iohandler":
                effs.append("iohandler")
            elif e[0] == "exit":
                effs.append("exit")
        nxt = list(chunks[n + 1]["enabled"] if n + 1 < len(chunks) else run.final_enabled)
        nxt += [b for b in ch.get("blocked_after", []) if b not in nxt]      # inside an adapter call that waits: the adapter's business
        if "exit" in effs:
            nxt = []                                                         # the process is gone
        en = ",".join(sorted((x for x in nxt if LIB.match(x)), key=lambda x: (0, 0) if x == "R" else (2, 0) if x == "W" else (1, int(x[1:]))))
        lines.append("k %s %s ; %s ; %s ; %s" % (tid, o, " ".join(effs), en, C.hx(ch["snap"])))
        idx.append(n)
    return lines, idx


# --------------------------------------------------------------------------------- oracles on the real trace
def analyse(run):
    """Flatten the chunk list into time-stamped facts (time = chunk index)."""
    A = Run()
    scn = run.scn
    A.req = {r["id"]: r for r in scn["requests"]}
    A.order = [r["id"] for r in scn["requests"]]
    A.arrive = {}            # rid -> chunk index of the reader's first lock section for it
    A.task = {}              # rid -> {"kind": do|late, "begin": t, "end": t, "tid":}
    A.calls = []             # {"m","item","tid","begin","end","out","rid"}
    A.enq = []               # (t, tid, msg)
    A.lsn = []               # {"t","tid","ev","id":enqueued id or None,"read":t,"enq":t}
    A.sent = [b.decode("utf-8") for _, b in run.sent]
    open_call, open_lsn, cur_task = {}, {}, {}
    for t, ch in enumerate(run.chunks):
        tid = ch["tid"]
        # the operation a chunk starts with happens before the events of its local code
        if ch["op"][0] == "lock" and ch["op"][1] == "mgr" and tid in open_lsn and open_lsn[tid]["read"] is None:
            open_lsn[tid]["read"] = t
        for e in ch["events"]:
            if e[0] == "task":
                _, th, rid, kind, edge = e
                if edge == "begin":
                    A.task[rid] = {"kind": kind, "begin": t, "end": None, "tid": th}
                    cur_task[th] = rid
                else:
                    A.task[rid]["end"] = t
                    cur_task.pop(th, None)
            elif e[0] == "ab":
                c = {"m": e[1], "item": e[2], "tid": tid, "begin": t, "end": None, "out": None, "rid": cur_task.get(tid)}
                A.calls.append(c)
                open_call[tid] = c
            elif e[0] == "ae":
                open_call[tid]["end"], open_call[tid]["out"] = t, e[3]
            elif e[0] == "enqueue":
                A.enq.append((t, e[1], e[2]))
                if e[1] in open_lsn:
                    open_lsn[e[1]]["enq"] = t
                    open_lsn[e[1]]["line"] = strip_ts(e[2])
            elif e[0] == "lsn-call":
                l = {"t": t, "tid": e[1], "ev": e[2], "read": None, "enq": None, "line": None, "probe": t >= run.probe_from}
                A.lsn.append(l)
                open_lsn[e[1]] = l
            elif e[0] == "lsn-return":
                if e[1] in open_lsn:
                    open_lsn[e[1]]["ret"] = t
                open_lsn.pop(e[1], None)
    # arrival = reader's manager-lock chunk, in wire order
    rl = [t for t, ch in enumerate(run.chunks) if ch["tid"] == "R" and ch["op"][0] == "lock" and ch["op"][1] == "mgr"]
    for rid, t in zip(A.order, rl):
        A.arrive[rid] = t
    # publication time of each executed SUB: the manager-lock chunk of its thread right before the task began
    A.published = {}
    for rid, tk in A.task.items():
        if A.req[rid]["method"] == "SUB" and tk["kind"] == "do":
            for t in range(tk["begin"], -1, -1):
                ch = run.chunks[t]
                if ch["tid"] == tk["tid"] and ch["op"][0] == "lock" and ch["op"][1] == "mgr":
                    A.published[rid] = t
                    break
            else:
                A.published[rid] = tk["begin"]
    # clearCode time of each processed USB: first manager-lock chunk of its thread after the task ended
    A.cleared = {}
    for rid, tk in A.task.items():
        if A.req[rid]["method"] == "USB" and tk["end"] is not None:
            for t in range(tk["end"] + 1, len(run.chunks)):
                ch = run.chunks[t]
                if ch["tid"] == tk["tid"] and ch["op"][0] == "lock" and ch["op"][1] == "mgr":
                    A.cleared[rid] = t
                    break
    return A


def replies_of(A, rid):
    m = A.req[rid]["method"]
    pre = "%s|%s|" % (rid, m)
    return [l for l in "".join(A.sent).split("\r\n") if l.startswith(pre)]


def oracle_c01(run, A, V):
    if run.status != "quiescent":
        return
    for rid in A.order:
        r = A.req[rid]
        if rid not in A.arrive:
            continue
        reps = replies_of(A, rid)
        sig = None
        if len(reps) != 1:
            kind = A.task.get(rid, {}).get("kind")
            sig = "reply-count:%s:%s:%d" % (r["method"], kind, len(reps))
            V(sig, "request %s (%s %s, %s) has %d replies on the wire at quiescence" % (rid, r["method"], r["item"], kind, len(reps)))
            continue
        body = reps[0][len(rid) + 1:]
        try:
            m_, kind_, data = ari.decode_reply(body)
        except Exception as e:
            V("reply-malformed", "reply %r: %s" % (reps[0], e))
            continue
        tk = A.task.get(rid)
        if tk is None:
            V("reply-without-processing", "request %s answered but never processed" % rid)
            continue
        calls = [c for c in A.calls if c["rid"] == rid]
        raised = [c for c in calls if c["out"] in ("SubscribeError", "FailureError", "RuntimeError", "raise")]
        if tk["kind"] == "late":
            want = "error" if r["method"] == "SUB" else "void"
        elif raised:
            want = "error"
        else:
            want = "void"
        if kind_ != want:
            V("reply-kind:%s:%s" % (r["method"], tk["kind"]), "request %s: reply %r, expected %s (calls %s)" % (rid, reps[0], want, [(c["m"], c["out"]) for c in calls]))
        elif want == "error" and tk["kind"] == "do":
            c = raised[0]
            sub = {"SubscribeError": "U", "FailureError": "F"}.get(c["out"], "")
            if data[0] != sub:
                V("reply-subtype", "request %s: reply %r, adapter raised %s" % (rid, reps[0], c["out"]))
        if r["method"] == "SUB" and tk["kind"] == "do" and not raised and not any(c["m"] == "sub" for c in calls):
            V("reply-without-call", "SUB %s answered V without a subscribe call" % rid)


def oracle_c02(run, A, V):
    for item in run.scn["items"]:
        calls = [c for c in A.calls if c["item"] == item and c["m"] in ("sub", "usb")]
        allc = [c for c in A.calls if c["item"] == item]
        for a, b in zip(allc, allc[1:]):
            if a["end"] is None or a["end"] > b["begin"]:
                V("overlap", "adapter calls for %s overlap: %s[%s..%s] and %s[%s..]" % (item, a["m"], a["begin"], a["end"], b["m"], b["begin"]))
        order = [c["rid"] for c in calls]
        want = [rid for rid in A.order if A.req[rid]["item"] == item and rid in order]
        if order != want:
            V("call-order", "adapter call order for %s is %s, arrival order %s" % (item, order, want))
        for prev, c in zip([None] + calls, calls):
            if c["m"] == "usb" and not (prev is not None and prev["m"] == "sub" and prev["out"] == "ok"):
                V("unsubscribe-unpaired", "unsubscribe(%s) for %s invoked although the preceding invocation was %s" % (
                    item, c["rid"], None if prev is None else (prev["m"], prev["out"])))
        rids = [rid for rid in A.order if A.req[rid]["item"] == item]
        for i, rid in enumerate(rids):
            tk = A.task.get(rid)
            if tk is None or A.req[rid]["method"] != "SUB":
                continue
            if tk["kind"] == "late":
                later = [x for x in rids[i + 1:] if x in A.arrive and A.arrive[x] < tk["begin"]]
                if not later:
                    V("skip-without-later-request", "SUB %s for %s skipped although no later request for the item had arrived" % (rid, item))
            if i == len(rids) - 1 and tk["kind"] != "do":
                V("latest-sub-skipped", "SUB %s is the latest request for %s but was skipped" % (rid, item))
        # "a subscription request that is the latest request received for its item is always executed": once everything has
        # come to rest, the item's last request, if it arrived and is a SUB, has been executed (not stranded in the queue)
        if run.status == "quiescent" and rids and rids[-1] in A.arrive and A.req[rids[-1]]["method"] == "SUB" \
                and all(r in A.arrive for r in rids) and A.task.get(rids[-1]) is None:
            V("latest-sub-never-executed", "SUB %s is the latest request received for %s and nothing is running any more, but it was never "
              "executed (no subscribe call, no reply): stranded in the item's queue" % (rids[-1], item))
        # an unsubscription after a failed / skipped subscription makes no call
        for i, rid in enumerate(rids):
            if A.req[rid]["method"] == "USB" and rid in A.task and i > 0:
                p = rids[i - 1]
                ptk = A.task.get(p)
                pcalls = [c for c in A.calls if c["rid"] == p and c["m"] == "sub"]
                p_ok = ptk is not None and ptk["kind"] == "do" and pcalls and pcalls[0]["out"] == "ok"
                made = any(c["rid"] == rid and c["m"] == "usb" for c in A.calls)
                if made != bool(p_ok):
                    V("unsubscribe-pairing", "USB %s: unsubscribe called=%s but preceding SUB %s succeeded=%s" % (rid, made, p, bool(p_ok)))
        # "an unsubscription following a failed or skipped subscription is acknowledged without calling the adapter"
        if run.status == "quiescent" and all(r in A.arrive for r in rids):
            wire = [strip_ts(l) for l in "".join(A.sent).split("\r\n")]
            for i, rid in enumerate(rids):
                if A.req[rid]["method"] != "USB" or i == 0:
                    continue
                p = rids[i - 1]
                ptk = A.task.get(p)
                pcalls = [c for c in A.calls if c["rid"] == p and c["m"] == "sub"]
                p_ok = ptk is not None and ptk["kind"] == "do" and pcalls and pcalls[0]["out"] == "ok"
                if ptk is not None and not p_ok:
                    reps = [l for l in wire if l.startswith("%s|USB|" % rid)]
                    if reps != ["%s|USB|V" % rid]:
                        V("unsubscribe-after-failure-not-acknowledged", "USB %s follows the failed / skipped subscription %s of %s; replies on the wire: %r "
                          "(expected exactly %s|USB|V)" % (rid, p, item, reps, rid))
        # pairing at rest: an unsubscription request that arrived after a subscription the adapter accepted leads to the matching
        # unsubscribe call (it is not silently dropped, which would leave the adapter subscribed and let the next subscribe
        # follow a subscribe)
        if run.status == "quiescent" and all(r in A.arrive for r in rids):
            for i, rid in enumerate(rids):
                if A.req[rid]["method"] == "USB" and i > 0 and rid not in A.task:
                    p = rids[i - 1]
                    pcalls = [c for c in A.calls if c["rid"] == p and c["m"] == "sub"]
                    if A.task.get(p) is not None and A.task[p]["kind"] == "do" and pcalls and pcalls[0]["out"] == "ok":
                        V("unsubscribe-never-invoked", "USB %s arrived after the successful subscription %s of %s, everything is at rest, but unsubscribe "
                          "was never invoked for it" % (rid, p, item))


def event_lines(A):
    out = []
    for l in "".join(A.sent).split("\r\n"):
        m = NOTIFY.match(l)
        if m and m.group(2) in ("UD3", "EOS", "CLS"):
            out.append(strip_ts(l))
    return out


def oracle_c03(run, A, V):
    executed = {}
    for rid, tk in A.task.items():
        if A.req[rid]["method"] == "SUB" and tk["kind"] == "do":
            executed[rid] = A.req[rid]["item"]
    for body in event_lines(A):
        try:
            m, kind, data = ari.decode_reply(body)
        except Exception as e:
            V("event-malformed", "%r: %s" % (body, e))
            continue
        item, rid = (data[0], data[1])
        if executed.get(rid) != item:
            V("event-mistagged", "notification %r names item %r with id %r, which is not an executed subscription of that item" % (body, item, rid))
    sub_windows = {}      # item -> list of (rid, begin, end, ok)
    for c in A.calls:
        if c["m"] == "sub":
            sub_windows.setdefault(c["item"], []).append(c)
    for l in A.lsn:
        if l["ev"]["kind"] == "fal" or l["ev"].get("illtyped"):
            continue                      # a failure notification / an ill-typed update is not a forwarded item event
        item, t = l["ev"]["item"], l["t"]
        got = None
        if l["line"] is not None:
            try:
                got = ari.decode_reply(l["line"])[2][1]
            except Exception:
                got = "?"
        # must forward: the call reads the id while the forwarding window of r is open — from the begin of
        # subscribe(r) to its end if it raises, or, if it returns normally, to the begin of the matching unsubscribe().
        # (A call submitted by ANOTHER thread shortly before unsubscribe() begins may read after it: then nothing is
        # required — the submission races with the unsubscription; calls made by the subscribing worker from inside
        # subscribe() always read inside the window.)
        def must_at(rd):
            must = None
            for c in sub_windows.get(item, []):
                if rd is None or rd < c["begin"]:
                    continue
                if c["end"] is None or rd <= c["end"]:
                    must = c["rid"]
                elif c["out"] == "ok":
                    nxt = [u for u in A.calls if u["item"] == item and u["m"] == "usb" and u["begin"] > c["end"]]
                    later = [u for u in A.calls if u["item"] == item and u["m"] in ("sub", "snap") and u["begin"] > c["end"] and u["begin"] <= rd]
                    if (not nxt or rd < nxt[0]["begin"]) and not later:
                        must = c["rid"]
            return must
        if l["read"] is None and l.get("ret") is not None:
            # the call returned without ever reading the item's state: whenever it would have read, between the call and
            # its return, the same forwarding window was open — so the event had to be forwarded
            a, b = must_at(t), must_at(l["ret"])
            must = a if a == b else None
        else:
            must = must_at(l["read"])
        if must is not None and got != must:
            V("event-lost", "event for %s submitted at t=%d inside the subscription %s was %s" % (item, t, must, "dropped" if got is None else "tagged " + str(got)))
        # must drop: never subscribed, or unsubscription fully processed
        rids = [rid for rid in A.order if A.req[rid]["item"] == item]
        first_do = min([A.published[r] for r in rids if r in A.published], default=None)
        drop = first_do is None or (l["read"] is not None and l["read"] < first_do and t < first_do)
        if not drop and l["read"] is not None:
            for r in rids:
                if r in A.cleared and A.cleared[r] < t:
                    later_do = [A.published[x] for x in rids if x in A.published and A.published[x] > A.cleared[r]]
                    if not later_do or l["read"] < min(later_do):
                        drop = True
        if drop and got is not None:
            V("event-not-dropped", "event for %s submitted at t=%d while the item had no subscription was forwarded with id %s" % (item, t, got))
        # never stale
        if got is not None:
            begun = [c for c in sub_windows.get(item, []) if c["begin"] < t]
            if begun:
                newest = begun[-1]["rid"]
                if A.order.index(got) < A.order.index(newest) if got in A.order else True:
                    V("event-stale", "event for %s submitted at t=%d after subscribe(%s) began carries the older id %s" % (item, t, newest, got))


def oracle_c17(run, A, V):
    lib_eos = []          # (t, tid, rid) EOS enqueued by a pool task outside any listener call made by the adapter
    lsn_enq_times = {(l["tid"], l["enq"]) for l in A.lsn if l["enq"] is not None}
    for t, tid, msg in A.enq:
        body = strip_ts(msg)
        if body.startswith("EOS|") and (tid, t) not in lsn_enq_times:
            lib_eos.append((t, tid, ari.decode_reply(body)[2]))
    for rid, tk in A.task.items():
        if A.req[rid]["method"] != "SUB" or tk["kind"] != "do":
            continue
        item = A.req[rid]["item"]
        calls = [c for c in A.calls if c["rid"] == rid]
        snap = next((c for c in calls if c["m"] == "snap"), None)
        sub = next((c for c in calls if c["m"] == "sub"), None)
        mine = [e for e in lib_eos if e[2] == (item, rid)]
        if snap is None or snap["end"] is None:
            continue
        if snap["out"] == "F":
            if len(mine) != 1:
                V("library-eos-count", "SUB %s with no snapshot available: %d library end-of-snapshot notifications" % (rid, len(mine)))
            elif sub is None or not (mine[0][0] < sub["begin"]):
                V("library-eos-order", "library EOS for %s is not enqueued before subscribe() begins" % rid)
        else:
            if mine:
                V("library-eos-unexpected", "SUB %s with snapshot outcome %s: library emitted an EOS" % (rid, snap["out"]))
        if snap["out"] == "raise" and sub is not None:
            V("subscribe-after-failed-snapshot-query", "SUB %s: availability query raised but subscribe was called" % rid)
        if snap["out"] == "raise" and run.status == "quiescent":
            # "... the subscription is answered with that error"
            wire = [strip_ts(l) for l in "".join(A.sent).split("\r\n")]
            reps = [l for l in wire if l.startswith("%s|SUB|" % rid)]
            if len(reps) != 1 or not reps[0].startswith("%s|SUB|E" % rid) or "snapshot+query+failed" not in reps[0]:
                V("failed-snapshot-query-not-answered", "SUB %s: the availability query raised, the replies on the wire are %r (expected one error reply "
                  "carrying the query's error)" % (rid, reps))
    # wire order: library EOS before the reply and before events submitted from within/after subscribe
    lines = [strip_ts(l) for l in "".join(A.sent).split("\r\n")]
    for t, tid, (item, rid) in lib_eos:
        eos_line = "EOS|S|%s|S|%s" % (item, rid)
        rep = [i for i, l in enumerate(lines) if l.startswith("%s|SUB|" % rid)]
        eo = [i for i, l in enumerate(lines) if l == eos_line]
        if rep and eo and not eo[0] < rep[0]:
            V("library-eos-after-reply", "EOS for %s is written after the subscription's reply" % rid)


def oracle_c16(run, A, V):
    if not run.scn.get("tail"):
        # the connection is healthy throughout (a slow peer is not a failed one): nothing may be reported as an I/O failure,
        # and the process must not exit — queued messages would never be written
        bad = [(ch["tid"],) + tuple(e[:2]) for ch in run.chunks for e in ch["events"] if e[0] in ("iohandler", "exit", "send-timeout")]
        if bad:
            V("io-failure-on-healthy-connection", "the connection is up (the peer merely reads slowly) but the library gave up on it: %r" % bad[:3])
    for ch in run.chunks:
        for e in ch["events"]:
            if e[0] == "concurrent-send":
                V("socket-written-by-two-threads", "thread %s writes to the connection while %s is (about to be) inside its own write: "
                  "the bytes of the two lines can interleave" % (e[1], ",".join(e[2])))
    if run.status != "quiescent":
        return
    sent_lines = "".join(A.sent).split("\r\n")
    if sent_lines and sent_lines[-1] == "":
        sent_lines.pop()
    # what the producers submitted, in submission order (anything the writer thread itself puts back into its queue is its
    # own business: only what reaches the wire counts)
    enq = [m for _, tid, m in A.enq if tid != "W"]
    if sent_lines != enq:
        k = next((i for i, (a, b) in enumerate(zip(sent_lines, enq)) if a != b), min(len(sent_lines), len(enq)))
        V("outbound-not-fifo", "lines written differ from the messages submitted (in order): %d written, %d submitted; first difference at "
          "position %d: written %r, submitted %r" % (len(sent_lines), len(enq), k, (sent_lines[k:k + 1] or [None])[0][:60] if sent_lines[k:k + 1] else None,
                                                     (enq[k:k + 1] or [None])[0][:60] if enq[k:k + 1] else None))
    # how the byte stream is cut into writes is not the property's business (several whole lines in one write, or a line
    # completed by a later write of the same thread, are fine on a stream socket); the stream must consist of whole lines
    total = "".join(A.sent)
    if total and not total.endswith("\r\n"):
        V("outbound-partial-line", "the bytes written end in the middle of a line: %r" % total[-60:])


def oracle_c19(run, A, V):
    if run.status != "quiescent":
        return
    for item in run.scn["items"]:
        rids = [rid for rid in A.order if A.req[rid]["item"] == item and rid in A.arrive]
        if not rids:
            continue
        last = rids[-1]
        mgr = run.active_items.get(item)
        if A.req[last]["method"] == "USB":
            if mgr is not None:
                V("item-retained-after-unsubscribe", "item %s still has bookkeeping after its last request (USB %s) was processed: queued=%s code=%s" % (item, last, mgr._queued, mgr._code))
            for l in A.lsn:
                if l["probe"] and l["ev"]["kind"] != "fal" and not l["ev"].get("illtyped") and l["ev"]["item"] == item and l["line"] is not None:
                    V("probe-event-not-dropped", "event for unsubscribed item %s forwarded after quiescence" % item)
        else:
            tk = A.task.get(last)
            calls = [c for c in A.calls if c["rid"] == last and c["m"] == "sub"]
            if tk and tk["kind"] == "do" and calls and calls[0]["out"] == "ok":
                if mgr is None or mgr._code != last:
                    V("live-subscription-wrong", "item %s: last request %s is a successful SUB but the live id is %s" % (item, last, None if mgr is None else mgr._code))
        for g in run.registry.get(item, []):
            if g is not mgr and (g._tasks_deq or g._isrunning or g._queued != 0):
                V("dead-manager-not-empty", "a removed manager of %s still holds work: queued=%s" % (item, g._queued))


def oracle_c14(run, A, V):
    lines = "".join(A.sent).split("\r\n")
    if lines and lines[-1] == "":
        lines.pop()
    if not lines:
        if run.status == "quiescent":
            V("credentials-missing", "nothing was written on the connection")
        return
    first = lines[0]
    if not first.startswith("1|RAC|"):
        V("credentials-not-first", "first line on the connection is %r" % first[:80])
        return
    if sum(1 for l in lines if l.split("|")[1:2] == ["RAC"]) != 1:
        V("credentials-repeated", "the credentials message was written more than once")
    try:
        m, kind, params = ari.decode_reply(first[2:])
    except Exception as e:
        V("credentials-malformed", "%r: %s" % (first, e))
        return
    u, p = run.scn.get("user"), run.scn.get("password")
    want = ([("user", u)] if u is not None else []) + ([("password", p)] if p is not None else []) + \
        [("enableClosePacket", "true"), ("SDK", "Python Adapter SDK")]
    if params != want:
        V("credentials-content", "credentials message carries %r, configuration is user=%r password=%r" % (params, u, p))
    # enqueued before the reader thread exists
    t_rac = next((t for t, tid, m in A.enq if "|RAC|" in m), None)
    t_reader = next((t for t, ch in enumerate(run.chunks) if ch["tid"] == "R"), None)
    if t_rac is not None and t_reader is not None and not t_rac < t_reader:
        V("reader-before-credentials", "the reader thread ran before the credentials message was enqueued")


def oracle_c18(run, A, V):
    for c in A.calls:
        if not c["tid"].startswith("T"):
            V("adapter-call-off-pool", "adapter method %s(%s) invoked on thread %s" % (c["m"], c["item"], c["tid"]))
    for t, ch in enumerate(run.chunks):
        for (waiter, label, owner, m) in ch.get("lock_waits", []):
            V("lock-held-across-adapter-call", "thread %s waits for the %s lock held by %s, which is inside adapter.%s — a blocked adapter call "
              "stops the library" % (waiter, label, owner, {"sub": "subscribe", "usb": "unsubscribe", "snap": "issnapshot_available"}.get(m, m)))
            return
    if run.scn["pool"] == 1:
        calls = [c for c in A.calls]
        for a, b in zip(calls, calls[1:]):
            if a["end"] is None or a["end"] > b["begin"]:
                V("pool-of-one-overlap", "adapter calls overlap with a pool of one")
                break


def oracle_c07(run, A, V):
    """an update whose payload has a value of an unsupported type: no UD3 line at all; if the item is live the failure is
    reported once (default handling of a Data server: one FAL notification)."""
    for l in A.lsn:
        if not l["ev"].get("illtyped"):
            continue
        line = l["line"]
        if line is not None and line.startswith("UD3|"):
            V("illtyped-update-produces-line", "an update with an ill-typed payload %r yielded the line %r" % (l["ev"], line[:80]))
        fals = [m for t, tid, m in A.enq if tid == l["tid"] and l["t"] <= t and strip_ts(m).startswith("FAL|E|")
                and "unsupported type" in ari.dec_text(strip_ts(m).split("|")[2]) or False]
    for l in A.lsn:
        if l["ev"]["kind"] == "fal":
            continue
        if l["line"] is not None and not l["ev"].get("illtyped") and l["line"].startswith("FAL|"):
            V("welltyped-update-fails", "a well-typed listener call produced a failure notification: %r" % l["line"][:80])


def oracle_c20(run, A, V):
    """how the connection ends: an honoured close request, a failing read, a failing write (scenarios with a `tail`)"""
    scn = run.scn
    tail = scn.get("tail")
    ev = [(t, ch["tid"]) + tuple(e) for t, ch in enumerate(run.chunks) for e in ch["events"]]
    ioh = [e for e in ev if e[2] == "iohandler"]
    exits = [e for e in ev if e[2] == "exit"]
    if tail == "close":
        if run.status != "quiescent":
            V("close-does-not-finish", "after the close request the run ended with status %s" % run.status)
            return
        for name in ("R", "W"):
            if name in run.alive:
                V("close-threads", "thread %s still alive after an honoured close request (parked at %r)" % (name, run.alive[name]))
        if run.sock.close_calls != 1:
            V("close-socket", "socket closed %d times on an honoured close request" % run.sock.close_calls)
        if run.tasks_unfinished:
            V("close-pool", "accepted pool tasks did not complete: %r" % run.tasks_unfinished)
        if ioh or exits or any(e[2] in ("send-on-closed", "recv-on-closed") for e in ev):
            V("own-close-reported", "the server's own close() surfaced as an I/O problem: %r" % (ioh + exits)[:3])
        t_close = next((t for t, ch in enumerate(run.chunks) if any(e[0] == "socket-close" for e in ch["events"])), None)
        if t_close is not None and any(t > t_close and ch["tid"] == "W" for t, ch in enumerate(run.chunks)):
            V("writer-after-close", "the writer thread ran after the socket had been closed")
        return
    read_failed = [e for e in ev if e[2] in ("recv-eof", "recv-reset")]
    write_failed = [e for e in ev if e[2] == "send-fails"]
    nfail = (1 if read_failed else 0) + (1 if write_failed else 0)
    h = scn.get("io_handler", "absent")
    if nfail == 0:
        if ioh or exits:
            V("spurious-io-report", "no read or write failed but the I/O handler / exit was invoked: %r" % (ioh + exits,))
        return
    if h == "absent" or h is True:
        if len(exits) != 1 or len(ioh) != (0 if h == "absent" else 1):
            V("io-failure-reporting", "handler=%r, %d failing thread(s): %d handler notifications, %d exits (expected %d and 1)" % (
                h, nfail, len(ioh), len(exits), 0 if h == "absent" else 1))
    else:
        if exits or len(ioh) != nfail:
            V("io-failure-reporting", "handler returns False, %d failing thread(s): %d handler notifications, %d exits (expected %d and 0)" % (
                nfail, len(ioh), len(exits), nfail))
    for e in ioh:
        if not ((read_failed and e[1] == "R") or (write_failed and e[1] == "W")):
            V("io-failure-wrong-thread", "I/O handler invoked from thread %s" % e[1])


ORACLES = {"C20": oracle_c20, "C07": oracle_c07, "C18": oracle_c18, "C14": oracle_c14, "C01": oracle_c01, "C02": oracle_c02, "C03": oracle_c03, "C16": oracle_c16, "C17": oracle_c17, "C19": oracle_c19}
