#!/bin/bash
# usage: peval.sh <name> <prop...>  — evaluate mutant worktree /tmp/mut/<name> against checks in a private copy of /verif
n=$1; shift
W=/tmp/w/$n; mkdir -p /tmp/w; rm -rf $W; cp -r /verif $W; rm -rf $W/.git
cd $W
python3 - "$n" "$@" <<'PY'
import json, os, subprocess, sys, time
n, props = sys.argv[1], sys.argv[2:]
W = "/tmp/w/" + n
res = {}
for p in props:
    t0 = time.time()
    r = subprocess.run(["/venv/bin/python", W + "/harness/check.py", p, "--tier", "quick"], capture_output=True, text=True, cwd=W,
                       env=dict(os.environ, VERIF_SEED="1", VERIF_REPO="/tmp/mut/" + n))
    lines = [l for l in r.stdout.split("\n") if l.startswith(("VIOLATION", "KNOWN-FINDING"))]
    detail = None
    for l in lines:
        if "replay=" in l:
            path = l.split("replay=")[1].split()[0]
            try:
                j = json.load(open(path))
                v = j.get("violation") or {}
                detail = {"signature": v.get("signature"), "what": (v.get("what") or "")[:300],
                          "no_longer_checks": [b.get("kind") + ":" + str(b.get("name"))[:80] for b in j.get("no_longer_checks", j.get("broken", []))][:4]}
            except Exception as e:
                detail = {"error": str(e)}
    res[p] = {"exit": r.returncode, "lines": [l.replace(W, "/verif") for l in lines], "detail": detail, "secs": round(time.time() - t0, 1),
              "stderr_tail": r.stderr[-400:] if r.returncode == 2 else ""}
    print(n, p, r.returncode, lines[:1], (detail or {}).get("signature"), flush=True)
json.dump(res, open("/tmp/mut/%s/results.json" % n, "w"), indent=1)
print(n, "CAUGHT BY:", [p for p, r in res.items() if r["exit"] == 1])
PY
rm -rf $W
