import json, os, subprocess, sys, glob
from concurrent.futures import ThreadPoolExecutor
names = sorted(os.path.basename(d) for d in glob.glob("/verif/seeded/*") if os.path.isdir(d))
def one(n):
    meta = json.load(open("/verif/seeded/%s/meta.json" % n))
    prop = (meta.get("caught_by") or [meta["breaks_property"]])
    prop = meta["breaks_property"] if meta["breaks_property"] in prop else prop[0]
    wt = "/tmp/mut/" + n
    subprocess.run(["git", "-C", "/repo", "worktree", "remove", "--force", wt], capture_output=True)
    subprocess.run(["git", "-C", "/repo", "worktree", "add", "--detach", wt, subprocess.run(["git", "-C", "/repo", "rev-parse", "HEAD"], capture_output=True, text=True).stdout.strip()], capture_output=True, check=True)
    a = subprocess.run(["git", "-C", wt, "apply", "/verif/seeded/%s/patch.diff" % n], capture_output=True, text=True)
    if a.returncode != 0:
        return n, prop, "APPLY-FAILED"
    r = subprocess.run(["timeout", "1500", "/tmp/mut/peval.sh", n, prop], capture_output=True, text=True)
    line = [l for l in r.stdout.split("\n") if l.startswith(n + " " + prop)]
    subprocess.run(["git", "-C", "/repo", "worktree", "remove", "--force", wt], capture_output=True)
    out = (n, prop, line[0][len(n) + len(prop) + 2:] if line else "NO-RESULT rc=%d %s" % (r.returncode, r.stderr[-200:]))
    print(*out, flush=True)
    return out
with ThreadPoolExecutor(7) as ex:
    res = list(ex.map(one, names))
json.dump(res, open("/tmp/mut/regress.json", "w"), indent=1)
print("DONE", sum(1 for r in res if r[2].startswith("1 ")), "of", len(res))
