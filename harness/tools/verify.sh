#!/bin/bash
# usage: verify.sh <name>   (worktree /tmp/mut/<name> with change applied, patch.diff, demo.py)
n=$1; wt=/tmp/mut/$n; cd $wt || exit 9
git diff -- lightstreamer_adapter > /tmp/mut/$n.patch
[ -s /tmp/mut/$n.patch ] || { echo "EMPTY PATCH"; exit 9; }
cp /tmp/mut/$n.patch $wt/patch.diff
PYTHONPATH=$wt timeout 120 /venv/bin/python demo.py >/tmp/mut/$n.demo_with.log 2>&1; a=$?
git apply -R /tmp/mut/$n.patch
PYTHONPATH=$wt timeout 120 /venv/bin/python demo.py >/tmp/mut/$n.demo_without.log 2>&1; b=$?
git apply /tmp/mut/$n.patch
timeout 1500 unshare -rn sh -c "ip link set lo up 2>/dev/null; exec /venv/bin/python -m pytest -q -p no:cacheprovider --timeout=900 -q " >/tmp/mut/$n.tests.log 2>&1; c=$?
echo "$n: demo_with_change_exit=$a demo_without_change_exit=$b tests_with_change_exit=$c $(tail -1 /tmp/mut/$n.tests.log)"
