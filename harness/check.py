#!/venv/bin/python
"""Entry point of every registered check:  check.py <Cxx> [--tier quick|thorough] [--replay f]

 1 regenerate AriVerif/Gen/*.lean from /repo's working tree (translator, harness/extract.py)
 2 lake build the property's theorems + driver; forbid sorry/axiom/native_decide; #print axioms
 3 correspondence streams (pure differential / co-simulation) model <-> real code, and the
   property's own oracle evaluated on the REAL code's outputs
 4 if a proof obligation or the correspondence broke: failing-input search on the real code
 5 evidence/<id>.json ; exit 0 | 1 (VIOLATION line) | 2 (infrastructure)
"""
import argparse
import json
import os
import sys
import time
import traceback

sys.path.insert(0, os.path.dirname(os.path.abspath(__file__)))
import common as C  # noqa: E402
import logging  # noqa: E402
logging.disable(logging.CRITICAL)


def registry():
    import props
    return props.PROPS


class Outcome:
    def __init__(self):
        self.violations = []      # property fails on the real code: dicts with 'what', 'input'
        self.broken = []          # proof obligations / correspondence that no longer check
        self.known = []


def run(prop_id, tier, replay=None):
    t0 = time.time()
    props = registry()
    if prop_id not in props:
        raise C.Infra("unknown property " + prop_id)
    P = props[prop_id]
    out = Outcome()
    cov = {}
    # ---- 1+2: translator, build, audit ------------------------------------------------
    import extract
    with C.BuildLock():
        gen = extract.regenerate()
        for g in gen["broken"]:
            if g["target"] in P.get("gen", []):
                out.broken.append({"kind": "translator", "name": g["target"], "detail": g["why"]})
        targets = list(P["lean"]) + ["driver"]
        ok, log, secs = C.lake_build(targets)
        build_errs = []
        if not ok:
            for e in C.failing_decls(log):
                e["decl"] = C.enclosing_decl(e["file"], e["line"])
                build_errs.append(e)
            if not build_errs:
                raise C.Infra("lake build failed without Lean errors:\n" + log[-3000:])
            for e in build_errs:
                out.broken.append({"kind": "proof-obligation", "name": "%s (%s:%d)" % (e["decl"], e["file"], e["line"]),
                                   "detail": e["msg"]})
            # the driver may still be buildable (model files fine, a theorem failed)
            okd, logd, _ = C.lake_build(["driver"])
            if not okd:
                out.broken.append({"kind": "model-build", "name": "driver", "detail": logd[-500:]})
        forb = C.grep_forbidden()
        if forb:
            out.broken.append({"kind": "forbidden-construct", "name": ",".join(forb[:5]), "detail": "sorry/axiom/native_decide found"})
        thms, axioms, discharged = [], {}, 0
        # when some module no longer builds, the theorems of the modules that still do are still checked and audited
        mods_ok = list(P["lean"]) if ok else [m for m in P["lean"] if C.lake_build([m])[0]]
        for mod in P["lean"]:
            names = C.theorems_of(mod)
            thms += [(mod, n) for n in names]
            if mod in mods_ok:
                ax = C.audit_axioms(mod, names)
                axioms.update(ax)
                discharged += sum(1 for n in names if set(ax.get(n.split(".")[-1], ["?"])) <= C.STD_AXIOMS)
        bad = {n: a for n, a in axioms.items() if not set(a) <= C.STD_AXIOMS}
        if bad:
            out.broken.append({"kind": "axiom-audit", "name": ",".join(bad), "detail": json.dumps(bad)})
        if tier == "thorough" and ok:
            import subprocess
            p = subprocess.run(["lake", "env", "leanchecker"] + list(P["lean"]), cwd=C.LEAN,
                               stdout=subprocess.PIPE, stderr=subprocess.STDOUT, text=True, timeout=3000)
            cov["leanchecker"] = "ok" if p.returncode == 0 else "FAILED"
            if p.returncode != 0:
                out.broken.append({"kind": "leanchecker", "name": ",".join(P["lean"]), "detail": p.stdout[-500:]})
        # private copy of the driver so that a concurrent rebuild cannot disturb the streams
        scratch = C.scratch_dir()
        if os.path.exists(C.DRIVER):
            import shutil
            shutil.copy2(C.DRIVER, os.path.join(scratch, "driver"))
            C.DRIVER = os.path.join(scratch, "driver")
    # ---- 3: correspondence + oracles on the real code -----------------------------------
    results = []

    def run_stream(stream, t):
        """A stream that dies on an exception RAISED INSIDE THE LIBRARY (the harness drives it only through documented use)
        is a finding about the library, reported with the traceback as its input; one that dies in the harness is an
        infrastructure failure (exit 2) as before."""
        try:
            return stream(t)
        except C.Infra:
            raise
        except Exception as e:
            import traceback
            tb = traceback.extract_tb(e.__traceback__)
            lib = os.path.join(C.REPO, "lightstreamer_adapter")
            if not tb or not os.path.abspath(tb[-1].filename).startswith(lib):
                raise
            from streams import Result
            r = Result(getattr(stream, "__name__", "stream") + ":aborted")
            r.violation("library-raised:" + type(e).__name__,
                        "the library raised %s: %s where the harness, using it as documented, expects no exception" % (type(e).__name__, str(e)[:200]),
                        {"traceback": ["%s:%d %s" % (os.path.relpath(f.filename, C.REPO) if f.filename.startswith(C.REPO) else os.path.basename(f.filename), f.lineno, f.name) for f in tb[-8:]]})
            return r
    try:
        for stream in P["streams"]:
            results.append(run_stream(stream, tier))
        for r in results:
            for m in r.mismatches[:20]:
                out.broken.append({"kind": "correspondence", "name": r.name, "detail": m})
            out.violations += r.violations
        # ---- 4: search ------------------------------------------------------------------
        if out.broken and not out.violations:
            for stream in P.get("search", P["streams"]):
                r = run_stream(stream, "search")
                results.append(r)
                out.violations += r.violations
                if out.violations:
                    break
    finally:
        C.rm_rf(scratch)
    # ---- 5: verdict, evidence -----------------------------------------------------------
    findings = C.load_findings()
    known = [k for k in findings.get("known", []) if k["property"] == prop_id]
    fresh = []
    for v in out.violations:
        hit = [k for k in known if k["signature"] == v.get("signature")]
        if hit:
            out.known.append((hit[0], v))
        else:
            fresh.append(v)
    seen = set()
    for k, v in out.known:
        if k["signature"] not in seen:
            seen.add(k["signature"])
            print("KNOWN-FINDING: property=%s %s" % (prop_id, k["what"]))
    rc = 0
    if fresh:
        path = os.path.join(C.REPLAYS, "%s-%s-%d.json" % (prop_id, tier, C.seed()))
        C.write_json(path, {"property": prop_id, "tier": tier, "seed": C.seed(), "violation": fresh[0], "more": fresh[1:5],
                            "broken": out.broken[:10],
                            "replay": "deterministic: VERIF_SEED=%d harness/check.py %s --tier %s re-executes the same inputs / schedules" % (C.seed(), prop_id, tier)})
        print("VIOLATION property=%s replay=%s" % (prop_id, path))
        rc = 1
    elif out.broken and not (out.known and not [b for b in out.broken if b["kind"] != "correspondence"]):
        path = os.path.join(C.REPLAYS, "%s-%s-%d.json" % (prop_id, tier, C.seed()))
        C.write_json(path, {"property": prop_id, "tier": tier, "seed": C.seed(), "no_longer_checks": out.broken[:20],
                            "note": "proof obligation or model/code correspondence broken; the failing-input "
                                    "search on the real code found no input on which the property fails"})
        print("VIOLATION property=%s replay=%s no-failing-input-found" % (prop_id, path))
        rc = 1
    ev = sum(r.evaluations for r in results)
    nontriv = sum(len(r.nontrivial) for r in results)
    samples = []
    for r in results:
        samples += [{"stream": r.name, "case": s} for s in r.samples[:3]]
    n_obl = len(thms)
    cov.update({
        "obligations": max(1, n_obl),
        "discharged": 0 if [b for b in out.broken if b["kind"] in ("forbidden-construct", "leanchecker")] else discharged,
        "modules_not_building": [m for m in P["lean"] if m not in mods_ok],
        "theorems": ["%s.%s" % (m, n) for m, n in thms],
        "axioms": sorted({a for v in axioms.values() for a in v}),
        "checker_cmd": "cd /verif/lean && lake build %s && lake env lean <#print axioms of every theorem>%s"
                       % (" ".join(P["lean"]), " && lake env leanchecker " + " ".join(P["lean"]) if tier == "thorough" else ""),
        "trusted_base": P["trusted"],
        "generated_from_source": gen["generated"],
        "evaluations": ev,
        "distinct_nontrivial": nontriv,
        "rule": P["rule"],
        "samples": samples or [{"note": "no correspondence stream ran"}],
        "traces_validated_against_impl": sum(r.traces for r in results),
        "streams": {r.name: {"evaluations": r.evaluations, "distinct_nontrivial": len(r.nontrivial),
                             "mismatches": len(r.mismatches), "violations": len(r.violations),
                             "exhaustive": r.exhaustive, "distribution": r.distribution} for r in results},
        "exhaustive": bool(results) and all(r.exhaustive for r in results),
        "broken": out.broken[:10],
        "known_findings_reported": sorted(seen),
    })
    C.write_json(os.path.join(C.EVIDENCE, prop_id + ".json"), {
        "property_id": prop_id, "tier": tier, "seed": C.seed(), "level": "proof",
        "coverage": cov, "assumptions": P["assumptions"], "wall_s": round(time.time() - t0, 2),
        "violations": len(fresh) + (1 if rc and not fresh else 0)})
    return rc


def main():
    ap = argparse.ArgumentParser()
    ap.add_argument("prop")
    ap.add_argument("--tier", default=os.environ.get("VERIF_TIER", "quick"))
    ap.add_argument("--replay")
    a = ap.parse_args()
    tier = a.tier if a.tier in ("quick", "thorough") else "quick"
    if a.replay:
        # a replay file records the tier and seed of the run that produced it; every stream is a deterministic
        # function of (tier, VERIF_SEED), so re-running with them re-executes the same inputs and schedules
        try:
            j = json.load(open(a.replay))
            tier = j.get("tier", tier)
            os.environ["VERIF_SEED"] = str(j.get("seed", 0))
        except (OSError, ValueError) as e:
            print("INFRASTRUCTURE ERROR: cannot read replay file: %s" % e, file=sys.stderr)
            sys.exit(2)
    try:
        rc = run(a.prop, tier, a.replay)
    except C.Infra as e:
        print("INFRASTRUCTURE ERROR: %s" % e, file=sys.stderr)
        sys.exit(2)
    except Exception:
        traceback.print_exc()
        sys.exit(2)
    sys.exit(rc)


if __name__ == "__main__":
    main()
