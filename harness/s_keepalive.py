"""C12 — grid differential of the real Server._use_keep_alive_hint (both server kinds) against the
generated+composed Lean `Ari.effective`, and the property's rule evaluated on the real code."""
from fractions import Fraction
import common as C
from streams import Result, diff


class _RM:
    def __init__(self):
        self.sender = None

    def change_keep_alive(self, k):
        self.sender = k


def _servers():
    from lightstreamer_adapter.server import DataProviderServer, MetadataProviderServer
    from lightstreamer_adapter.interfaces.data import DataProvider
    from lightstreamer_adapter.interfaces.metadata import MetadataProvider

    class D(DataProvider):
        def initialize(self, p, c=None): pass
        def set_listener(self, l): pass
        def issnapshot_available(self, i): return False
        def subscribe(self, i): pass
        def unsubscribe(self, i): pass

    class M(MetadataProvider):
        pass
    return [("data", lambda ka: DataProviderServer(D(), ("h", 1), keep_alive=ka, thread_pool_size=1)),
            ("meta", lambda ka: MetadataProviderServer(M(), ("h", 1), keep_alive=ka, thread_pool_size=1))]


def spec(ka, h):
    """The rule of C12, transcribed from the property text (seconds, exact)."""
    floor = lambda x: max(x, Fraction(1000)) / 1000
    if h is None:
        return Fraction(1) if ka is None else max(Fraction(0), ka)
    if h <= 0:
        return Fraction(10) if ka is None else max(Fraction(0), ka)
    if ka is None:
        return floor(h) if h < 10000 else Fraction(10)
    if ka > 0:
        return floor(h) if h < ka * 1000 else ka
    return floor(h)


def fr(x):
    return "n" if x is None else "%d/%d" % (x.numerator, x.denominator)


def grid(tier, R):
    cfgs = [None] + [Fraction(x) for x in ("-1", "-0.5", "0", "0.125", "0.5", "1", "1.5", "5", "10", "12", "3600")]
    base = ["-5", "-0.5", "0", "0.125", "1", "300", "999", "999.5", "999.875", "1000", "1000.125", "1001", "2500",
            "9999", "9999.5", "10000", "10000.5", "10001", "1e9", "1e3", " 2500 ", "+300", "2500.0", "0.0", "-0.0"]
    out = []
    for c in cfgs:
        hs = [None] + base
        if c is not None:
            for d in ("-1", "-0.125", "0", "0.125", "1"):
                hs.append(str(float(c * 1000 + Fraction(d))))
        n = {"quick": 6, "search": 40, "thorough": 400}[tier]
        for _ in range(n):
            hs.append(str(R.choice([1, 2, 4, 8]) ** -1 * R.randrange(-2000, 100000)))
        for h in hs:
            out.append((c, h))
    return out


def stream(tier):
    R = C.rng("keepalive")
    res = Result("keepalive-grid")
    ops, impl = [], []
    for kind, mk in _servers():
        for cfg, hs in grid(tier, R):
            ka = None if cfg is None else (int(cfg) if cfg.denominator == 1 and R.random() < 0.5 else float(cfg))
            srv = mk(ka)
            try:
                rm = _RM()
                srv._request_manager = rm
                before = srv.keep_alive
                rm.sender = before           # what _RequestManager was created with (Server.start)
                hexact = None if hs is None else Fraction(float(hs))
                try:
                    srv._use_keep_alive_hint(hs)
                except Exception as e:
                    # hints are decimal strings (the quantifier says so): nothing may escape, the reader thread would die
                    res.violation("keepalive:hint-raises", "_use_keep_alive_hint(%r) raises %r (keep_alive=%r, %s server)" % (hs, e, ka, kind),
                                  {"keep_alive": ka, "hint": hs, "kind": kind})
                    continue
                after_cfg, after_snd = srv.keep_alive, rm.sender
            finally:
                srv._executor.shutdown(wait=False)
            ops.append("hint %s %s" % (fr(cfg), fr(hexact)))
            a = "ok %s %s" % (fr(Fraction(after_cfg)), fr(Fraction(after_snd)))
            impl.append(a)
            res.distribution["kind_" + kind] += 1
            res.distribution["hint_" + ("absent" if hs is None else "nonpositive" if hexact <= 0 else "below_floor" if hexact < 1000 else "positive")] += 1
            res.distribution["cfg_" + ("none" if cfg is None else "off" if cfg <= 0 else "on")] += 1
            # ---- the property on the real code
            want = spec(cfg, hexact)
            got = Fraction(after_snd)
            # the implementation computes in floats: compare with the correctly rounded exact value
            if float(want) != float(got) or float(Fraction(after_cfg)) != float(want):
                sig = "keepalive:configured-off,hint-below-floor" if (cfg is not None and cfg <= 0 and hexact is not None and 0 < hexact < 1000) else "keepalive:rule"
                res.violation(sig, "keepalive in force %s s (property: %s s) for keep_alive=%r hint=%r on %s server"
                              % (after_snd, float(want), ka, hs, kind), {"keep_alive": ka, "hint": hs, "kind": kind})
            if hexact is not None and hexact > 0:
                res.nontrivial.add((kind, cfg, hexact))
            res.sample({"keep_alive": ka, "hint": hs, "kind": kind, "in_force_s": after_snd}, 6)
    # model vs code: the model is exact (Rat); the code rounds h/1000 correctly, so compare as floats
    model = C.run_driver(ops)
    for op, m, i in zip(ops, model, impl):
        res.evaluations += 1
        def tofl(ans):
            p = ans.split(" ")
            return [float(Fraction(x)) for x in p[1:]] if p[0] == "ok" else ans
        if tofl(m) != tofl(i):
            res.mismatch(op, m, i)
    return res
