"""Correspondence streams: each returns a Result with what it covered and what it found."""
import collections
import common as C


class Result:
    def __init__(self, name):
        self.name = name
        self.evaluations = 0
        self.nontrivial = set()
        self.samples = []
        self.distribution = collections.Counter()
        self.mismatches = []     # model and implementation disagree (correspondence broken)
        self.violations = []     # the property's oracle fails on the REAL code
        self.exhaustive = False
        self.traces = 0

    def sample(self, s, limit=4):
        if len(self.samples) < limit:
            self.samples.append(s)

    def mismatch(self, op, model, impl):
        if len(self.mismatches) < 50:
            self.mismatches.append({"op": op, "model": model, "impl": impl})

    def violation(self, signature, what, inp):
        if len(self.violations) < 50:
            self.violations.append({"signature": signature, "what": what, "input": inp})


def diff(res, ops, impl_answers):
    """Run `ops` through the Lean driver and compare with the implementation's answers."""
    model = C.run_driver(ops)
    for op, m, i in zip(ops, model, impl_answers):
        res.evaluations += 1
        if " ".join(m.split()) != " ".join(i.split()):
            res.mismatch(op, m, i)
    return model
