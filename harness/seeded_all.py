#!/venv/bin/python
"""Regression over every stored seeded change: apply seeded/<id>/patch.diff to /repo, run the quick check of the property it
breaks, undo it; prints one line per change and a summary.  usage: seeded_all.py [id ...]   (never run while another check uses /repo)"""
import json, os, shutil, subprocess, sys, tempfile
V = os.path.dirname(os.path.dirname(os.path.abspath(__file__)))
ids = sys.argv[1:] or sorted(os.listdir(os.path.join(V, "seeded")))
missed, noinput = [], []
for i in ids:
    d = os.path.join(V, "seeded", i)
    meta = json.load(open(os.path.join(d, "meta.json")))
    prop = meta["breaks_property"]
    tmp = tempfile.mkdtemp(prefix="seeded-eval-")
    try:
        shutil.copy(os.path.join(d, "patch.diff"), tmp)
        r = subprocess.run(["/venv/bin/python", os.path.join(V, "harness", "seeded_eval.py"), tmp, prop], capture_output=True, text=True, timeout=3000)
        res = json.load(open(os.path.join(tmp, "results.json")))[prop]
    finally:
        shutil.rmtree(tmp, ignore_errors=True)
    line = (res["lines"] or ["-"])[0]
    sig = (res.get("detail") or {}).get("signature")
    print("%-5s %s exit=%d %s %s (%.0fs)" % (i, prop, res["exit"], "no-failing-input-found" if "no-failing-input-found" in line else "", sig, res["secs"]), flush=True)
    if res["exit"] != 1:
        missed.append(i)
    elif "no-failing-input-found" in line:
        noinput.append(i)
print("MISSED:", missed)
print("NO CONCRETE INPUT:", noinput)
