"""Co-simulation streams: the REAL servers under the deterministic scheduler vs the Lean concurrent models,
chunk by chunk (effects, enabled library threads, full abstract state), plus the properties' oracles
evaluated on the real traces."""
import random
import common as C
from streams import Result
import cosim_data as CD


def _compact(scn):
    return {"pool": scn["pool"], "requests": [(r["id"], r["method"], r["item"]) for r in scn["requests"]],
            "chunks": scn["chunks"], "ext_threads": len(scn["ext"])}


def data_stream(props, name="data-cosim", tails=False):
    def stream(tier):
        R0 = C.rng("conc-data" + ("-tails" if tails else ""))
        res = Result(name)
        n = {"quick": 250, "search": 4000, "thorough": 12000}[tier]
        batch_lines, owners = [], []
        runs = []
        for i in range(n):
            seed = R0.getrandbits(48)
            R = random.Random(seed)
            scn = CD.gen_scenario(R, "small" if i % 5 else "large")
            if tails:
                # the connection ends: close request (last line, or the only one) / EOF / reset / failing write
                scn = CD.add_tail(R, scn, None if tails is True else list(tails))
                res.distribution["tail_%s" % scn["tail"]] += 1
            SR = random.Random(seed ^ 0x5DEECE66D)
            choices = []

            def choose(names, ops, SR=SR, choices=choices):
                c = SR.choice(names)
                choices.append(c)
                return c
            run = CD.run_real(scn, choose)
            A = CD.analyse(run)
            lines, idx = CD.driver_lines(run)
            for k, l in enumerate(lines):
                batch_lines.append(l)
                owners.append((i, k))
            runs.append((seed, scn, run, lines, choices))
            res.evaluations += 1
            res.traces += 1
            res.distribution["chunks"] += len(run.chunks)
            res.distribution["status_" + run.status] += 1
            late = sum(1 for t in A.task.values() if t["kind"] == "late")
            res.distribution["late_tasks"] += late
            res.distribution["requests"] += len(scn["requests"])
            res.distribution["listener_calls"] += len(A.lsn)
            res.distribution["listener_forwarded"] += sum(1 for l in A.lsn if l["line"] is not None)
            res.distribution["illtyped_listener_calls"] += sum(1 for l in A.lsn if l["ev"].get("illtyped"))
            res.distribution["failure_notifications_after_illtyped"] += sum(1 for l in A.lsn if l["ev"].get("illtyped") and (l["line"] or "").startswith("FAL|"))
            # non-trivial: some request arrived while its item's dequeuer was working (pipelining took effect)
            overl = any(A.arrive.get(rid) is not None and any(
                tk["begin"] is not None and tk["begin"] <= A.arrive[rid] and (tk["end"] is None or A.arrive[rid] <= tk["end"])
                for r2, tk in A.task.items() if A.req[r2]["item"] == A.req[rid]["item"] and r2 != rid) for rid in A.order)
            if overl or late:
                res.nontrivial.add(seed)
            if run.errors:
                res.violation("thread-died", "an exception escaped a library thread: %s" % (run.errors,), {"seed": seed, "scenario": _compact(scn)})
            for p in props:
                CD.ORACLES[p](run, A, lambda sig, what, seed=seed, scn=scn, choices=choices, p=p: res.violations.append(
                    {"signature": sig, "what": what, "property": p,
                     "input": {"seed": seed, "scenario": _compact(scn), "schedule": choices[:400]}}) if len(res.violations) < 50 else None)
            if i < 2:
                res.sample({"scenario": _compact(scn), "schedule_prefix": choices[:40], "wire": [b.decode() for _, b in run.sent][:12]})
        out = C.run_driver(batch_lines)
        bad_runs = set()
        for (i, k), line, ans in zip(owners, batch_lines, out):
            if ans != "ok" and i not in bad_runs:
                bad_runs.add(i)
                seed, scn, run, lines, choices = runs[i]
                res.mismatch({"seed": seed, "scenario": _compact(scn), "chunk_line": line[:300], "line_no": k}, ans[:600], "real server")
        res.distribution["lockstep_chunks_compared"] = len(batch_lines)
        return res
    return stream


def meta_stream(props, name="meta-cosim"):
    import cosim_meta as CM

    def stream(tier):
        R0 = C.rng("conc-meta")
        res = Result(name)
        n = {"quick": 200, "search": 1000, "thorough": 10000}[tier]
        batch, owners, runs = [], [], []
        for i in range(n):
            seed = R0.getrandbits(48)
            R = random.Random(seed)
            scn = CM.gen_scenario(R)
            SR = random.Random(seed ^ 0x9E3779B97F4A)
            choices = []

            def choose(names, ops, SR=SR, choices=choices):
                c = SR.choice(names)
                choices.append(c)
                return c
            run = CM.run_real(scn, choose)
            A = CM.analyse(run)
            lines = CM.driver_lines(run)
            for k, l in enumerate(lines):
                batch.append(l)
                owners.append((i, k))
            comp = {"pool_arg": scn["pool_arg"], "handler": scn["handler"], "block": scn["block"],
                    "requests": [(r["id"], r["method"], r["kind"]) for r in scn["requests"]], "chunks": len(scn["chunks"])}
            runs.append((seed, comp))
            res.evaluations += 1
            res.traces += 1
            res.distribution["chunks"] += len(run.chunks)
            res.distribution["requests"] += len(scn["requests"])
            res.distribution["adapter_calls"] += len(A.calls)
            res.distribution["handler_notifications"] += len(A.handler)
            res.distribution["pool_%s" % scn["pool_arg"]] += 1
            res.distribution["blocked_call_scenarios"] += 1 if scn["block"] else 0
            conc = any(a["tid"] != b["tid"] and a["begin"] < b["begin"] and (a["end"] is None or b["begin"] < a["end"]) for a in A.calls for b in A.calls)
            if conc or scn["block"] or len(scn["requests"]) > 1:
                res.nontrivial.add(seed)
            if run.errors:
                res.violation("thread-died", "an exception escaped a library thread: %s" % (run.errors,), {"seed": seed, "scenario": comp})
            for p in props:
                CM.ORACLES[p](run, A, lambda sig, what, seed=seed, comp=comp, choices=choices, p=p: res.violations.append(
                    {"signature": sig, "what": what, "property": p, "input": {"seed": seed, "scenario": comp, "schedule": choices[:300]}})
                    if len(res.violations) < 50 else None)
            if i < 2:
                res.sample({"scenario": comp, "schedule_prefix": choices[:30], "wire": [b.decode() for _, b in run.sent][:8]})
        out = C.run_driver(batch)
        bad = set()
        for (i, k), line, ans in zip(owners, batch, out):
            if ans != "ok" and i not in bad:
                bad.add(i)
                res.mismatch({"seed": runs[i][0], "scenario": runs[i][1], "chunk_line": line[:300], "line_no": k}, ans[:600], "real server")
        res.distribution["lockstep_chunks_compared"] = len(batch)
        return res
    return stream


def make_pct_chooser(SR, choices):
    """PCT-style scheduling for the fine-grained mode: threads have random priorities and the highest-priority
    enabled thread runs; a thread that has just been preempted at a line (not at a blocking / publishing
    operation) drops to the lowest priority, so the others run on until they block — which is what makes a
    narrow window (a few lines between two lock sections) likely to be hit by a whole critical path of another thread."""
    prio, demoted, low = {}, {}, [0.0]

    def choose(names, ops):
        for n in names:
            if n not in prio:
                prio[n] = SR.random()
            op = ops[n]
            if op[0] == "line" and demoted.get(n) is not op:
                demoted[n] = op
                low[0] -= 1.0
                prio[n] = low[0]
        c = SR.choice(names) if SR.random() < 0.08 else max(names, key=lambda n: prio[n])
        choices.append(c)
        return c
    return choose


def data_fine_stream(props, name="data-fine-grained-exploration"):
    """The real Data server with LINE-LEVEL preemption inside server.py / subscription.py (sys.settrace): no
    lock-step model comparison is possible at this granularity; the properties' oracles are evaluated on the
    real trace.  This exercises what the chunk-level co-simulation takes for granted: that every access to
    shared state happens inside the lock-protected sections (a narrowed lock shows up only here)."""
    def stream(tier):
        R0 = C.rng("conc-data-fine")
        res = Result(name)
        n = {"quick": 500, "search": 4000, "thorough": 8000}[tier]
        import extract
        focus = sorted(extract.changed_functions())      # functions whose structure differs from the recorded skeleton
        # functions that now write state outside their instance (Gen.sharedState vs the record): preempt inside them too, in
        # whatever module they live (the codec modules are otherwise taken as pure and never preempted)
        state_fns = extract.state_functions()
        state_files = sorted(state_fns)
        focus = sorted(set(focus) | {f for fs in state_fns.values() for f in fs})
        res.distribution["focus_functions"] = len(focus)
        for i in range(n):
            seed = R0.getrandbits(48)
            R = random.Random(seed)
            # races on one item's bookkeeping need many requests on few items
            scn = CD.gen_scenario(R, "large" if i % 4 < 2 else "small", max_items=1 if i % 4 == 0 else 2)
            scn["probe"] = True
            scn["fine_seed"] = seed ^ 0xF1E2D3
            scn["fine_p"] = R.choice([0.15, 0.35, 0.6])
            SR = random.Random(seed ^ 0x5DEECE66D)
            choices = []

            def choose(names, ops, SR=SR, choices=choices):
                c = SR.choice(names)
                choices.append(c)
                return c
            if i % 2:
                # PCT-style priorities with few preemptions
                scn["fine_p"] = R.choice([0.02, 0.05, 0.1])
                choose = make_pct_chooser(SR, choices)
                res.distribution["pct_runs"] += 1
            if focus and i % 4 != 0:
                # the source's structure changed there: preempt at (nearly) every line of those functions, rarely elsewhere
                scn["fine_focus"] = focus
                scn["fine_p"] = R.choice([0.01, 0.03])
                res.distribution["focused_runs"] += 1
            if state_files:
                scn["fine_files"] = state_files
            run = CD.run_real(scn, choose)
            A = CD.analyse(run)
            res.evaluations += 1
            res.traces += 1
            res.distribution["chunks"] += len(run.chunks)
            res.distribution["line_preemptions"] += sum(1 for ch in run.chunks if ch["op"][0] == "line")
            res.distribution["status_" + run.status] += 1
            if any(ch["op"][0] == "line" for ch in run.chunks):
                res.nontrivial.add(seed)
            if run.errors:
                res.violation("thread-died", "an exception escaped a library thread: %s" % (run.errors,), {"seed": seed, "scenario": _compact(scn)})
            if run.status not in ("quiescent",):
                res.violation("no-quiescence", "the run ended with status %s (deadlock or runaway)" % run.status, {"seed": seed, "scenario": _compact(scn)})
            for p in props:
                CD.ORACLES[p](run, A, lambda sig, what, seed=seed, scn=scn, choices=choices, p=p: res.violations.append(
                    {"signature": sig, "what": what, "property": p,
                     "input": {"seed": seed, "fine_grained": True, "scenario": _compact(scn), "schedule": choices[:600]}}) if len(res.violations) < 50 else None)
            if i < 1:
                res.sample({"scenario": _compact(scn), "line_level_preemption": True, "chunks": len(run.chunks)})
        return res
    return stream


def meta_fine_stream(props, name="meta-fine-grained-exploration"):
    """Metadata server with line-level preemption inside server.py (oracles only; see data_fine_stream)."""
    import cosim_meta as CM

    def stream(tier):
        R0 = C.rng("conc-meta-fine")
        res = Result(name)
        n = {"quick": 100, "search": 600, "thorough": 4000}[tier]
        import extract
        focus = sorted(extract.changed_functions())
        state_fns = extract.state_functions()          # see data_fine_stream
        state_files = sorted(state_fns)
        focus = sorted(set(focus) | {f for fs in state_fns.values() for f in fs})
        for i in range(n):
            seed = R0.getrandbits(48)
            R = random.Random(seed)
            scn = CM.gen_scenario(R)
            scn["fine_seed"] = seed ^ 0xA5A5A5
            scn["fine_p"] = R.choice([0.2, 0.6, 1.0])
            if focus and i % 3:
                scn["fine_focus"] = focus
                scn["fine_p"] = R.choice([0.02, 0.1])
            if state_files:
                scn["fine_files"] = state_files
            SR = random.Random(seed ^ 0x9E3779B97F4A)
            choices = []

            def choose(names, ops, SR=SR, choices=choices):
                c = SR.choice(names)
                choices.append(c)
                return c
            run = CM.run_real(scn, choose)
            A = CM.analyse(run)
            comp = {"pool_arg": scn["pool_arg"], "handler": scn["handler"], "block": scn["block"],
                    "requests": [(r["id"], r["method"], r["kind"]) for r in scn["requests"]]}
            res.evaluations += 1
            res.traces += 1
            res.distribution["line_preemptions"] += sum(1 for ch in run.chunks if ch["op"][0] == "line")
            res.nontrivial.add(seed)
            if run.errors:
                res.violation("thread-died", "an exception escaped a library thread: %s" % (run.errors,), {"seed": seed, "scenario": comp})
            for p in props:
                CM.ORACLES[p](run, A, lambda sig, what, seed=seed, comp=comp, choices=choices, p=p: res.violations.append(
                    {"signature": sig, "what": what, "property": p, "input": {"seed": seed, "fine_grained": True, "scenario": comp, "schedule": choices[:400]}})
                    if len(res.violations) < 50 else None)
        return res
    return stream


def init_race_stream(tier):
    """C10 under threads: the real Data server under the scheduler with the init request readable early or late, a SECOND
    init request somewhere later in the stream, and random schedules of the starting thread (which keeps running after it
    has started the reader), the reader, the writer and the pool.  Oracles only (the Data model ignores a late init request)."""
    R0 = C.rng("conc-init-race")
    res = Result("data-cosim-init-race")
    n = {"quick": 400, "search": 1500, "thorough": 8000}[tier]
    for i in range(n):
        seed = R0.getrandbits(48)
        R = random.Random(seed)
        scn = CD.gen_scenario(R, "small", max_items=1)
        scn["requests"] = scn["requests"][:2]
        first = "1|DPI|S|ARI.version|S|1.9.1\r\n"
        second = "i2|DPI|S|ARI.version|S|1.9.1%s\r\n" % R.choice(["", "|S|keepalive_hint.millis|S|2500"])
        reqs = ["%s|%s|S|%s\r\n" % (r["id"], r["method"], r["item"]) for r in scn["requests"]]
        k = R.randrange(0, len(reqs) + 1)
        scn["chunks"] = [first] + reqs[:k] + [second] + reqs[k:]
        scn["early"] = R.random() < 0.3
        scn["probe"] = False
        scn["ext"] = []
        SR = random.Random(seed ^ 0x1F123BB5)
        choices = []
        # bias: once the reader exists, the starting thread is often held back (it is the thread that matters here)
        hold = R.random() < 0.6

        def choose(names, ops, SR=SR, choices=choices, hold=hold):
            cand = [x for x in names if x != "M"] if (hold and "R" in names and len(names) > 1 and SR.random() < 0.85) else names
            c = SR.choice(cand or names)
            choices.append(c)
            return c
        run = CD.run_real(scn, choose)
        res.evaluations += 1
        res.traces += 1
        ev = [(t, ch["tid"]) + tuple(e) for t, ch in enumerate(run.chunks) for e in ch["events"]]
        inits = [e for e in ev if e[2] == "adapter-sync" and e[3] == "initialize"]
        lsns = [e for e in ev if e[2] == "adapter-sync" and e[3] == "set_listener"]
        wire = "".join(b.decode("utf-8") for _, b in run.sent).split("\r\n")
        inp = {"seed": seed, "scenario": {"chunks": scn["chunks"], "pool": scn["pool"], "early": scn["early"]}, "schedule": choices[:300]}
        res.nontrivial.add((tuple(scn["chunks"]), tuple(choices[:60])))
        res.distribution["status_" + run.status] += 1
        m_last = max((t for t, ch in enumerate(run.chunks) if ch["tid"] == "M"), default=-1)
        r_init = min((e[0] for e in inits), default=None)
        if r_init is not None and r_init < m_last:
            res.distribution["initialize_before_start_returned"] += 1
        if len(inits) > 1 or len(lsns) > 1:
            res.violation("initialize-twice", "initialize invoked %d times, set_listener %d times (a second init request was accepted)" % (len(inits), len(lsns)), inp)
        if any(l.startswith("i2|") for l in wire):
            res.violation("second-init-answered", "the second init request got a reply: %r" % [l for l in wire if l.startswith("i2|")], inp)
        calls = [e for e in ev if e[2] == "ab"]
        if calls and (not inits or calls[0][0] < inits[0][0]):
            res.violation("adapter-call-before-initialize", "adapter.%s invoked before initialize returned" % (calls[0][3],), inp)
        if run.status == "quiescent":
            # requests after the (first) init request are served: the gate does not close again
            for r in scn["requests"]:
                if not any(l.startswith(r["id"] + "|") for l in wire):
                    res.violation("request-after-init-rejected", "request %s (%s) sent after the init request was never answered" % (r["id"], r["method"]), inp)
                    break
        if run.errors:
            res.violation("thread-died", "an exception escaped a library thread: %s" % (run.errors,), inp)
        if i < 2:
            res.sample({"scenario": inp["scenario"], "wire": wire[:8]})
    return res
