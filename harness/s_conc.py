"""Co-simulation streams: the REAL servers under the deterministic scheduler vs the Lean concurrent models,
chunk by chunk (effects, enabled library threads, full abstract state), plus the properties' oracles
evaluated on the real traces."""
import random
import common as C
from streams import Result
import cosim_data as CD


def _compact(scn):
    return {"pool": scn["pool"], "requests": [(r["id"], r["method"], r["item"]) for r in scn["requests"]],
            "chunks": scn["chunks"], "ext_threads": len(scn["ext"])}


def data_stream(props, name="data-cosim"):
    def stream(tier):
        R0 = C.rng("conc-data")
        res = Result(name)
        n = {"quick": 250, "search": 1500, "thorough": 12000}[tier]
        batch_lines, owners = [], []
        runs = []
        for i in range(n):
            seed = R0.getrandbits(48)
            R = random.Random(seed)
            scn = CD.gen_scenario(R, "small" if i % 5 else "large")
            SR = random.Random(seed ^ 0x5DEECE66D)
            choices = []

            def choose(names, ops, SR=SR, choices=choices):
                c = SR.choice(names)
                choices.append(c)
                return c
            run = CD.run_real(scn, choose)
            A = CD.analyse(run)
            lines, idx = CD.driver_lines(run)
            for k, l in enumerate(lines):
                batch_lines.append(l)
                owners.append((i, k))
            runs.append((seed, scn, run, lines, choices))
            res.evaluations += 1
            res.traces += 1
            res.distribution["chunks"] += len(run.chunks)
            res.distribution["status_" + run.status] += 1
            late = sum(1 for t in A.task.values() if t["kind"] == "late")
            res.distribution["late_tasks"] += late
            res.distribution["requests"] += len(scn["requests"])
            res.distribution["listener_calls"] += len(A.lsn)
            res.distribution["listener_forwarded"] += sum(1 for l in A.lsn if l["line"] is not None)
            # non-trivial: some request arrived while its item's dequeuer was working (pipelining took effect)
            overl = any(A.arrive.get(rid) is not None and any(
                tk["begin"] is not None and tk["begin"] <= A.arrive[rid] and (tk["end"] is None or A.arrive[rid] <= tk["end"])
                for r2, tk in A.task.items() if A.req[r2]["item"] == A.req[rid]["item"] and r2 != rid) for rid in A.order)
            if overl or late:
                res.nontrivial.add(seed)
            if run.errors:
                res.violation("thread-died", "an exception escaped a library thread: %s" % (run.errors,), {"seed": seed, "scenario": _compact(scn)})
            for p in props:
                CD.ORACLES[p](run, A, lambda sig, what, seed=seed, scn=scn, choices=choices, p=p: res.violations.append(
                    {"signature": sig, "what": what, "property": p,
                     "input": {"seed": seed, "scenario": _compact(scn), "schedule": choices[:400]}}) if len(res.violations) < 50 else None)
            if i < 2:
                res.sample({"scenario": _compact(scn), "schedule_prefix": choices[:40], "wire": [b.decode() for _, b in run.sent][:12]})
        out = C.run_driver(batch_lines)
        bad_runs = set()
        for (i, k), line, ans in zip(owners, batch_lines, out):
            if ans != "ok" and i not in bad_runs:
                bad_runs.add(i)
                seed, scn, run, lines, choices = runs[i]
                res.mismatch({"seed": seed, "scenario": _compact(scn), "chunk_line": line[:300], "line_no": k}, ans[:600], "real server")
        res.distribution["lockstep_chunks_compared"] = len(batch_lines)
        return res
    return stream
