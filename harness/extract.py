"""Translator: regenerates lean/AriVerif/Gen/*.lean from /repo's *current* source on every run.

A deliberately small Python-subset -> Lean translator over `ast` (DESIGN §2.3).  Targets:
  G1 KeepAlive : Server._use_keep_alive_hint, Server._change_keep_alive, keep-alive part of Server.__init__
  G2 Version   : both getSupportedVersion, version prologue / success epilogue of Server._on_init
  G3 Exc       : protocol._EXCEPTIONS_MAP, exception class hierarchy, designated classes per write_* function
  G4 Pool      : pool sizing in Server.__init__
Anything outside the supported subset raises Unsupported(file:line) -> that target is reported as a
broken tie (never silently skipped) and the previously generated file is left in place so that the
other properties still build.
"""
import ast
import os
import re
import common as C

GEN = os.path.join(C.LEAN, "AriVerif", "Gen")
PKG = "lightstreamer_adapter"


class Unsupported(Exception):
    pass


def write_if_changed(path, text):
    try:
        if open(path, encoding="utf-8").read() == text:
            return False
    except OSError:
        pass
    os.makedirs(os.path.dirname(path), exist_ok=True)
    with open(path, "w", encoding="utf-8") as f:
        f.write(text)
    return True


def parse(rel):
    path = os.path.join(C.REPO, PKG, rel)
    return ast.parse(open(path, encoding="utf-8").read(), filename=path), path


def find_class(tree, name):
    for n in tree.body:
        if isinstance(n, ast.ClassDef) and n.name == name:
            return n
    raise Unsupported("class %s not found" % name)


def find_func(node, name):
    for n in node.body:
        if isinstance(n, ast.FunctionDef) and n.name == name:
            return n
    raise Unsupported("function %s not found" % name)


def lean_str(s):
    return '"' + s.replace("\\", "\\\\").replace('"', '\\"') + '"'


def is_logging(stmt):
    """`self._log.info(...)`, `DATA_LOGGER.warning(...)` … : dropped."""
    if isinstance(stmt, ast.Expr) and isinstance(stmt.value, ast.Call):
        f = stmt.value.func
        if isinstance(f, ast.Attribute) and f.attr in ("debug", "info", "warning", "error", "fatal", "exception", "critical"):
            base = ast.unparse(f.value)
            return "log" in base.lower()
    return isinstance(stmt, ast.Expr) and isinstance(stmt.value, ast.Constant) and isinstance(stmt.value.value, str)


class Tr:
    """CPS translator of a statement block into one Lean expression.

    env : python-name -> (lean expression, type); types: rat orat str ostr bool int oint
    consts : dotted python constant -> (lean expression, type)
    effects: {call-or-target text: handler(tr, node, env) -> env}   (state lives in env under '$' keys)
    """

    def __init__(self, path, consts, num="rat", ret=None, rais=None, effects=None):
        self.path, self.consts, self.num = path, consts, num
        self.ret, self.rais, self.effects = ret, rais, effects or {}
        self.n = 0

    def bad(self, node, why=""):
        raise Unsupported("%s:%d: unsupported %s %s" % (os.path.relpath(self.path, C.REPO), getattr(node, "lineno", 0),
                                                          type(node).__name__, why))

    def fresh(self, base):
        self.n += 1
        return "%s_%d" % (re.sub(r"\W", "_", base), self.n)

    def numlit(self, v):
        if isinstance(v, bool) or not isinstance(v, (int, float)):
            return None
        if isinstance(v, float):
            if v != int(v):
                return None
            v = int(v)
        ty = "Rat" if self.num == "rat" else "Int"
        return "(%d : %s)" % (v, ty) if v >= 0 else "(-%d : %s)" % (-v, ty)

    # ---- expressions -> (lean, type)
    def ex(self, n, env):
        if isinstance(n, ast.Constant):
            if n.value is None:
                return "none", "none"
            if isinstance(n.value, bool):
                return ("true" if n.value else "false"), "bool"
            if isinstance(n.value, str):
                return lean_str(n.value), "str"
            lit = self.numlit(n.value)
            if lit:
                return lit, self.num
            self.bad(n, "constant")
        if isinstance(n, ast.Name):
            if n.id in env:
                return env[n.id]
            self.bad(n, "name " + n.id)
        if isinstance(n, (ast.Attribute, ast.Subscript)):
            key = ast.unparse(n)
            if key in env:
                return env[key]
            if key in self.consts:
                return self.consts[key]
            self.bad(n, key)
        if isinstance(n, ast.UnaryOp) and isinstance(n.op, ast.Not):
            a, t = self.ex(n.operand, env)
            if t != "bool":
                self.bad(n, "not on " + t)
            return "(!%s)" % a, "bool"
        if isinstance(n, ast.UnaryOp) and isinstance(n.op, ast.USub):
            a, t = self.ex(n.operand, env)
            return "(-%s)" % a, t
        if isinstance(n, ast.BoolOp):
            parts = [self.ex(v, env) for v in n.values]
            if any(t != "bool" for _, t in parts):
                self.bad(n, "boolop on non-bool")
            op = " && " if isinstance(n.op, ast.And) else " || "
            return "(" + op.join(a for a, _ in parts) + ")", "bool"
        if isinstance(n, ast.BinOp):
            a, ta = self.ex(n.left, env)
            b, tb = self.ex(n.right, env)
            ops = {ast.Add: "+", ast.Sub: "-", ast.Mult: "*", ast.Div: "/"}
            if type(n.op) not in ops or ta != tb or ta not in ("rat", "int") or (ta == "int" and isinstance(n.op, ast.Div)):
                self.bad(n, "binop")
            return "(%s %s %s)" % (a, ops[type(n.op)], b), ta
        if isinstance(n, ast.Compare) and len(n.ops) == 1:
            return self.cmp(n, env)
        if isinstance(n, ast.Call):
            f = n.func
            if isinstance(f, ast.Name) and f.id == "float" and len(n.args) == 1:
                a, t = self.ex(n.args[0], env)
                if t != "rat":
                    self.bad(n, "float() of " + t)
                return a, "rat"
            if isinstance(f, ast.Name) and f.id in ("max", "min") and len(n.args) == 2:
                a, ta = self.ex(n.args[0], env)
                b, tb = self.ex(n.args[1], env)
                if ta != tb or ta not in ("rat", "int"):
                    self.bad(n, "max/min types")
                return "(%s %s %s)" % (f.id, a, b), ta
            if isinstance(f, ast.Attribute) and f.attr == "startswith" and len(n.args) == 1 and isinstance(n.args[0], ast.Constant):
                a, t = self.ex(f.value, env)
                if t != "str":
                    self.bad(n, "startswith on " + t)
                return "(Ari.pyStartsWith %s %s)" % (a, lean_str(n.args[0].value)), "bool"
            key = ast.unparse(f)
            if key in self.effects and self.effects[key][0] == "expr":
                return self.effects[key][1](self, n, env)
            self.bad(n, "call " + ast.unparse(f))
        if isinstance(n, ast.IfExp):
            return self.ifexp(n, env)
        self.bad(n)

    def cmp(self, n, env):
        op, r = n.ops[0], n.comparators[0]
        if isinstance(op, (ast.Is, ast.IsNot)):
            self.bad(n, "`is` outside an if-test")
        if isinstance(op, (ast.In, ast.NotIn)):
            a, t = self.ex(n.left, env)
            if not isinstance(r, (ast.Tuple, ast.List)) or t != "str":
                self.bad(n, "in")
            elems = []
            for e in r.elts:
                b, tb = self.ex(e, env)
                if tb != "str":
                    self.bad(n, "in elems")
                elems.append("%s == %s" % (a, b))
            body = "(" + " || ".join(elems) + ")" if elems else "false"
            return ("(!%s)" % body if isinstance(op, ast.NotIn) else body), "bool"
        a, ta = self.ex(n.left, env)
        b, tb = self.ex(r, env)
        if ta != tb:
            self.bad(n, "compare %s with %s" % (ta, tb))
        if isinstance(op, (ast.Eq, ast.NotEq)):
            if ta not in ("str", "rat", "int", "bool"):
                self.bad(n, "== on " + ta)
            return "(%s %s %s)" % (a, "==" if isinstance(op, ast.Eq) else "!=", b), "bool"
        ops = {ast.Lt: "<", ast.LtE: "≤", ast.Gt: ">", ast.GtE: "≥"}
        if type(op) not in ops or ta not in ("rat", "int"):
            self.bad(n, "ordering")
        return "(decide (%s %s %s))" % (a, ops[type(op)], b), "bool"

    def none_test(self, test):
        """`X is None` / `X is not None` -> (key, positive?)"""
        if isinstance(test, ast.Compare) and len(test.ops) == 1 and isinstance(test.ops[0], (ast.Is, ast.IsNot)) \
                and isinstance(test.comparators[0], ast.Constant) and test.comparators[0].value is None:
            return ast.unparse(test.left), isinstance(test.ops[0], ast.Is)
        return None

    def split_none(self, node, test, env, on_true, on_false):
        """`if X is [not] None: on_true else: on_false` as a match that rebinds X to its content."""
        key, is_none = self.none_test(test)
        if key not in env:
            self.bad(node, "None-test on unknown " + key)
        a, t = env[key]
        none_k, some_k = (on_true, on_false) if is_none else (on_false, on_true)
        if t == "none":
            return none_k(env)
        if not t.startswith("o"):
            self.bad(node, "None-test on non-optional " + key + ":" + t)
        v = self.fresh(key.split(".")[-1])
        env_none = dict(env)
        env_none[key] = ("none", "none")
        env_some = dict(env)
        env_some[key] = (v, t[1:])
        return "(match %s with\n | none => %s\n | some %s => %s)" % (a, none_k(env_none), v, some_k(env_some))

    def ifexp(self, n, env):
        res_ty = {}

        def branch(node):
            def k(e):
                a, t = self.ex(node, e)
                res_ty[id(node)] = t
                return (a, t)
            return k
        if self.none_test(n.test):
            out = {}

            def wrap(node):
                def k(e):
                    a, t = self.ex(node, e)
                    out[id(node)] = t
                    return "\0%d\0%s\0" % (id(node), a)
                return k
            s = self.split_none(n, n.test, env, wrap(n.body), wrap(n.orelse))
            tb, te = out[id(n.body)], out[id(n.orelse)]
            ty = self.unify(n, tb, te)

            def fix(m):
                t = out[int(m.group(1))]
                return self.coerce(m.group(2), t, ty)
            return re.sub("\0(\\d+)\0(.*?)\0", fix, s, flags=re.S), ty
        c, tc = self.ex(n.test, env)
        if tc != "bool":
            self.bad(n, "ifexp test")
        a, ta = self.ex(n.body, env)
        b, tb = self.ex(n.orelse, env)
        ty = self.unify(n, ta, tb)
        return "(if %s then %s else %s)" % (c, self.coerce(a, ta, ty), self.coerce(b, tb, ty)), ty

    def unify(self, n, a, b):
        if a == b:
            return a
        if a == "none" and b != "none":
            return b if b.startswith("o") else "o" + b
        if b == "none":
            return a if a.startswith("o") else "o" + a
        if a == "o" + b or b == "o" + a:
            return a if a.startswith("o") else b
        self.bad(n, "cannot unify %s / %s" % (a, b))

    def coerce(self, a, t, ty):
        if t == ty or t == "none":
            return a
        if ty == "o" + t:
            return "(some %s)" % a
        raise Unsupported("coerce %s to %s" % (t, ty))

    # ---- statements: CPS, k(env) gives the Lean expression for "the rest"
    def block(self, stmts, env, k):
        if not stmts:
            return k(env)
        s, rest = stmts[0], stmts[1:]

        def cont(e):
            return self.block(rest, e, k)
        if isinstance(s, ast.Pass) or is_logging(s):
            return cont(env)
        if isinstance(s, ast.Return):
            if self.ret is None:
                self.bad(s, "return")
            return self.ret(self, s, env)
        if isinstance(s, ast.Raise):
            if self.rais is None:
                self.bad(s, "raise")
            return self.rais(self, s, env)
        if isinstance(s, ast.Assign) and len(s.targets) == 1:
            key = ast.unparse(s.targets[0])
            if key in self.effects and self.effects[key][0] == "assign":
                return cont(self.effects[key][1](self, s, env))
            if isinstance(s.targets[0], ast.Name):
                a, t = self.ex(s.value, env)
                if t == "none":
                    e2 = dict(env)
                    e2[key] = ("none", "none")
                    return cont(e2)
                v = self.fresh(key)
                e2 = dict(env)
                e2[key] = (v, t)
                return "(let %s := %s;\n %s)" % (v, a, cont(e2))
            self.bad(s, "assignment to " + key)
        if isinstance(s, ast.Expr) and isinstance(s.value, ast.Call):
            key = ast.unparse(s.value.func)
            if key in self.effects and self.effects[key][0] == "call":
                return cont(self.effects[key][1](self, s.value, env))
            self.bad(s, "call " + key)
        if isinstance(s, ast.If):
            if self.none_test(s.test):
                return self.split_none(s, s.test, env,
                                       lambda e: self.block(s.body, e, cont),
                                       lambda e: self.block(s.orelse, e, cont))
            c, tc = self.ex(s.test, env)
            if tc != "bool":
                self.bad(s, "if-test of type " + tc)
            return "(if %s then\n %s\n else\n %s)" % (c, self.block(s.body, env, cont), self.block(s.orelse, env, cont))
        if isinstance(s, ast.Try):
            key = "try"
            if key in self.effects:
                return cont(self.effects[key][1](self, s, env))
        self.bad(s)


HEADER = "/- GENERATED by harness/extract.py from %s — do not edit; regenerated on every check run. -/\nimport AriVerif.Py.Text\n"


def class_consts(cls, num, prefix):
    out = {}
    for n in cls.body:
        if isinstance(n, ast.Assign) and len(n.targets) == 1 and isinstance(n.targets[0], ast.Name) \
                and isinstance(n.value, ast.Constant) and isinstance(n.value.value, (int, float)) \
                and not isinstance(n.value.value, bool):
            ty = "Rat" if num == "rat" else "Int"
            for p in prefix:
                out["%s.%s" % (p, n.targets[0].id)] = ("(%d : %s)" % (n.value.value, ty), num)
    return out


# ------------------------------------------------------------------------------------- G1
def gen_keepalive():
    tree, path = parse("server.py")
    srv = find_class(tree, "Server")
    consts = class_consts(srv, "rat", ["Server", "self"])
    # _use_keep_alive_hint
    f = find_func(srv, "_use_keep_alive_hint")
    if [a.arg for a in f.args.args] != ["self", "keepalive_hint"]:
        raise Unsupported("_use_keep_alive_hint signature changed")

    def change(tr, call, env):
        if len(call.args) != 1 or call.keywords:
            tr.bad(call, "_change_keep_alive arity")
        a, t = tr.ex(call.args[0], env)
        if t != "rat":
            tr.bad(call, "_change_keep_alive argument type " + t)
        e = dict(env)
        e["$ka"] = ("(some %s)" % a, "orat")
        return e
    tr = Tr(path, consts, "rat", effects={"self._change_keep_alive": ("call", change)})
    env = {"keepalive_hint": ("hint", "orat"), "self._configured_keep_alive": ("cfg", "orat"), "$ka": ("none", "orat")}
    use_hint = tr.block(f.body, env, lambda e: e["$ka"][0])
    # _change_keep_alive
    g = find_func(srv, "_change_keep_alive")
    arg = g.args.args[1].arg
    seen = {}

    def cfg_assign(tr_, s, env_):
        a, t = tr_.ex(s.value, env_)
        seen["config"] = a
        return env_

    def rm_call(tr_, call, env_):
        a, t = tr_.ex(call.args[0], env_)
        seen["sender"] = a
        return env_
    tr2 = Tr(path, consts, "rat", effects={"self._config['keep_alive']": ("assign", cfg_assign),
                                           "self._request_manager.change_keep_alive": ("call", rm_call)})

    def fin(e):
        if "config" not in seen or "sender" not in seen:
            raise Unsupported("_change_keep_alive no longer sets both the config value and the sender interval")
        return "(%s, %s)" % (seen["config"], seen["sender"])
    change_body = tr2.block(g.body, {arg: ("ms", "rat")}, fin)
    # __init__ : configured / initial keepalive
    init = find_func(srv, "__init__")
    exprs = {}
    for s in init.body:
        if isinstance(s, ast.Assign) and len(s.targets) == 1:
            key = ast.unparse(s.targets[0])
            if key in ("self._configured_keep_alive", "self._config['keep_alive']"):
                tr3 = Tr(path, consts, "rat")
                exprs[key] = tr3.ex(s.value, {"keep_alive": ("keep_alive", "orat")})
    if len(exprs) != 2:
        raise Unsupported("Server.__init__: keep-alive assignments not found")
    cfg_e, cfg_t = exprs["self._configured_keep_alive"]
    ini_e, ini_t = exprs["self._config['keep_alive']"]
    if cfg_t != "orat" or ini_t != "rat":
        raise Unsupported("Server.__init__: keep-alive assignment types %s %s" % (cfg_t, ini_t))
    # _Sender loop guard: `if self._keepalive > 0` (timed get) else blocking get
    snd = find_class(tree, "_Sender")
    run = find_func(snd, "_do_run")
    guard = None
    for n in ast.walk(run):
        if isinstance(n, ast.If) and "self._keepalive" in ast.unparse(n.test):
            guard = Tr(path, consts, "rat").ex(n.test, {"self._keepalive": ("k", "rat")})[0]
            break
    if guard is None:
        raise Unsupported("_Sender._do_run: keepalive guard not found")
    text = HEADER % "server.py (Server._use_keep_alive_hint, _change_keep_alive, __init__, _Sender._do_run guard)"
    text += "namespace Ari.Gen\n\n"
    text += "/-- argument (milliseconds) of the last `_change_keep_alive` call made by `_use_keep_alive_hint`, if any.\n"
    text += "    `cfg` = `self._configured_keep_alive`, `hint` = parsed `keepalive_hint.millis`. -/\n"
    text += "def useHint (cfg : Option Rat) (hint : Option Rat) : Option Rat :=\n %s\n\n" % use_hint
    text += "/-- `_change_keep_alive`: (value stored in the config, value handed to the sender), seconds. -/\n"
    text += "def changeKeepAlive (ms : Rat) : Rat × Rat :=\n %s\n\n" % change_body
    text += "/-- `self._configured_keep_alive` (milliseconds) from the constructor argument (seconds). -/\n"
    text += "def configuredMs (keep_alive : Option Rat) : Option Rat :=\n %s\n\n" % cfg_e
    text += "/-- initial `keep_alive` property (seconds). -/\n"
    text += "def initialKeepAlive (keep_alive : Option Rat) : Rat :=\n %s\n\n" % ini_e
    text += "/-- the writer loop's guard for a timed wait. -/\n"
    text += "def senderTimed (k : Rat) : Bool :=\n %s\n\nend Ari.Gen\n" % guard
    return text


# ------------------------------------------------------------------------------------- G2
def gen_version():
    tree, path = parse("server.py")
    out = HEADER % "server.py (getSupportedVersion ×2, Server._on_init version prologue and success epilogue)"
    out += "namespace Ari.Gen\n\n"

    def ret(tr, s, env):
        a, t = tr.ex(s.value, env)
        if t != "str":
            tr.bad(s, "return type " + t)
        return "(some %s)" % a

    def rais(tr, s, env):
        return "none"
    for cls, name in (("MetadataProviderServer", "metaSupported"), ("DataProviderServer", "dataSupported")):
        f = find_func(find_class(tree, cls), "getSupportedVersion")
        args = [a.arg for a in f.args.args]
        if len(args) != 3:
            raise Unsupported("%s.getSupportedVersion signature" % cls)
        tr = Tr(path, {}, "rat", ret=ret, rais=rais)
        body = tr.block(f.body, {args[1]: ("proxy_version", "str"), args[2]: ("max_version", "str")},
                        lambda e: (_ for _ in ()).throw(Unsupported("%s.getSupportedVersion may fall off its end" % cls)))
        out += "/-- `%s.getSupportedVersion`; `none` = raises. -/\n" % cls
        out += "def %s (proxy_version max_version : String) : Option String :=\n %s\n\n" % (name, body)
    # _on_init
    f = find_func(find_class(tree, "Server"), "_on_init")
    maxv = None
    tryn = None
    for s in f.body:
        if isinstance(s, ast.Assign) and ast.unparse(s.targets[0]) == "max_version" and isinstance(s.value, ast.Constant):
            maxv = s.value.value
        if isinstance(s, ast.Try):
            tryn = s
    if maxv is None or tryn is None:
        raise Unsupported("_on_init: max_version / try statement not found")
    # prologue = statements of the try body up to (and including) the getSupportedVersion assignment
    pro, tail = [], None
    for i, s in enumerate(tryn.body):
        if isinstance(s, ast.Assign) and "getSupportedVersion" in ast.unparse(s.value):
            call = s.value
            if ast.unparse(call) != "self.getSupportedVersion(proxy_version, max_version)" or ast.unparse(s.targets[0]) != "advertised_version":
                raise Unsupported("_on_init: getSupportedVersion call shape changed: " + ast.unparse(s))
            tail = tryn.body[i + 1:]
            break
        pro.append(s)
    if tail is None:
        raise Unsupported("_on_init: getSupportedVersion call not found in try body")
    tr = Tr(path, {}, "rat", rais=rais)

    def k(e):
        a, t = e["proxy_version"]
        if t != "str":
            raise Unsupported("_on_init: proxy_version may still be None when negotiated")
        return "(some %s)" % a
    body = tr.block(pro, {"proxy_version": ("pv", "ostr")}, k)
    out += "def maxVersion : String := %s\n\n" % lean_str(maxv)
    out += "/-- version prologue of `_on_init`: the version string handed to `getSupportedVersion`; `none` = raises. -/\n"
    out += "def prologue (pv : Option String) : Option String :=\n %s\n\n" % body
    # statements after negotiation inside the try must be: params merge, initialize, optional set_listener
    tail_src = [ast.unparse(s) for s in tail]
    expect = ["if params is not None:\n    init_params = params.copy()\n    parsed_data.update(init_params)",
              "adapter.initialize(parsed_data, config_file)",
              "if invoke_listener is True:\n    adapter.set_listener(self)"]
    if tail_src != expect:
        raise Unsupported("_on_init: statements between negotiation and the reply changed: %r" % tail_src)
    out += "/-- shape check passed: after negotiation `_on_init` merges `params` over the Proxy parameters,\n"
    out += "    calls `adapter.initialize(parsed_data, config_file)` and then (Data only) `adapter.set_listener`. -/\n"
    out += "def initCallsShape : Bool := true\n\n"
    # handlers: exactly `except Exception as err: res = subprotocol.write_init(exception=err)`
    if len(tryn.handlers) != 1 or ast.unparse(tryn.handlers[0].type) != "Exception" or \
            [ast.unparse(s) for s in tryn.handlers[0].body] != ["res = subprotocol.write_init(exception=err)"]:
        raise Unsupported("_on_init: except clause changed")
    # epilogue (try-else)
    state = {}

    def close_assign(tr_, s, env):
        a, t = tr_.ex(s.value, env)
        e = dict(env)
        e["$close"] = (a, "bool")
        return e

    def params_assign(tr_, s, env):
        if ast.unparse(s.value) not in ("None", "{}"):
            tr_.bad(s, "proxy_parameters value")
        e = dict(env)
        e["$pp"] = ("none", "ostr")
        return e

    def params_set(tr_, s, env):
        a, t = tr_.ex(s.value, env)
        if t != "str":
            tr_.bad(s, "ARI.version value type")
        e = dict(env)
        e["$pp"] = ("(some %s)" % a, "ostr")
        return e

    def res_assign(tr_, s, env):
        if ast.unparse(s.value) != "subprotocol.write_init(proxy_parameters)":
            tr_.bad(s, "reply construction")
        state["res"] = True
        return env
    tr = Tr(path, {}, "rat", effects={"self._close_expected": ("assign", close_assign),
                                      "proxy_parameters": ("assign", params_assign),
                                      "proxy_parameters[protocol.ARI_VERSION]": ("assign", params_set),
                                      "res": ("assign", res_assign)})
    body = tr.block(tryn.orelse, {"advertised_version": ("adv", "str"), "$close": ("closeBefore", "bool"), "$pp": ("none", "ostr")},
                    lambda e: "(%s, %s)" % (e["$close"][0], e["$pp"][0]))
    if not state.get("res"):
        raise Unsupported("_on_init: success reply construction not found")
    out += "/-- success epilogue of `_on_init`: (new `_close_expected`, value of the `ARI.version` reply parameter). -/\n"
    out += "def epilogue (adv : String) (closeBefore : Bool) : Bool × Option String :=\n %s\n\n" % body
    # the hint is applied after try/except/else, on every path
    after = [ast.unparse(s) for s in f.body[f.body.index(tryn) + 1:]]
    if after != ["self._use_keep_alive_hint(keep_alive_hint)", "return res"]:
        raise Unsupported("_on_init: statements after the try changed: %r" % after)
    out += "/-- shape check passed: `_use_keep_alive_hint(keep_alive_hint)` runs after the try statement on every path. -/\n"
    out += "def hintAppliedOnEveryPath : Bool := true\n\nend Ari.Gen\n"
    return out


# ------------------------------------------------------------------------------------- G3
WRITER_METHODS = None


def gen_exc():
    ptree, ppath = parse("protocol.py")
    out = HEADER % "protocol.py (_EXCEPTIONS_MAP), interfaces/{data,metadata}.py (class statements), data_protocol.py / metadata_protocol.py (designated classes per writer)"
    out += "namespace Ari.Gen\n\n"
    # _EXCEPTIONS_MAP
    emap = None
    for n in ptree.body:
        if isinstance(n, ast.Assign) and ast.unparse(n.targets[0]) == "_EXCEPTIONS_MAP":
            emap = n.value
    if not isinstance(emap, ast.Dict):
        raise Unsupported("protocol._EXCEPTIONS_MAP is not a dict literal")
    pairs = []
    for k, v in zip(emap.keys, emap.values):
        if not (isinstance(k, ast.Call) and ast.unparse(k.func) == "str" and isinstance(k.args[0], ast.Name)
                and isinstance(v, ast.Constant) and isinstance(v.value, str) and len(v.value) == 1):
            raise Unsupported("_EXCEPTIONS_MAP entry %s" % ast.unparse(k))
        pairs.append((k.args[0].id, v.value))
    out += "/-- `_EXCEPTIONS_MAP`: exact class -> subtype code. -/\n"
    out += "def excMap : List (String × Char) :=\n [" + ", ".join("(%s, '%s')" % (lean_str(c), ch) for c, ch in pairs) + "]\n\n"
    # _append_exceptions / _handle_exception shape (hand-modelled in Errors.lean): pin their source text
    shapes = {}
    for n in ptree.body:
        if isinstance(n, ast.FunctionDef) and n.name in ("_append_exceptions", "_handle_exception", "_write_init"):
            shapes[n.name] = ast.unparse(n)
    # class hierarchy
    parents = []
    for rel in ("interfaces/metadata.py", "interfaces/data.py"):
        t, _ = parse(rel)
        for n in t.body:
            if isinstance(n, ast.ClassDef) and n.bases:
                b = ast.unparse(n.bases[0])
                if b == "Exception" or any(b == p[0] for p in parents):
                    if len(n.bases) != 1:
                        raise Unsupported("multiple inheritance on " + n.name)
                    parents.append((n.name, b))
    out += "/-- direct superclass of every exception class defined by the library's interfaces. -/\n"
    out += "def parents : List (String × String) :=\n [" + ", ".join("(%s, %s)" % (lean_str(a), lean_str(b)) for a, b in parents) + "]\n\n"
    # designated classes per wire method
    des = {}

    def method_of(node, fn):
        """Method.X named in a writer function."""
        names = set(re.findall(r"Method\.([A-Z0-9]{3})", ast.unparse(fn)))
        return names
    for rel in ("data_protocol.py", "metadata_protocol.py"):
        t, path = parse(rel)
        for fn in t.body:
            if not (isinstance(fn, ast.FunctionDef) and fn.name.startswith("write")):
                continue
            calls = [c for c in ast.walk(fn) if isinstance(c, ast.Call) and ast.unparse(c.func) in ("_handle_exception", "_write_init")]
            if not calls:
                continue
            if len(calls) != 1:
                raise Unsupported("%s: several error-reply constructions" % fn.name)
            c = calls[0]
            meths = method_of(c, fn)
            if ast.unparse(c.func) == "_write_init":
                classes = [ast.unparse(c.args[1])]
            else:
                j = ast.unparse(c.args[1])
                if not re.fullmatch(r"join\((str\()?(method|Method\.[A-Z0-9]{3}(\.name)?)\)?, ['\"]E['\"]\)", j):
                    raise Unsupported("%s: error reply prefix %s" % (fn.name, j))
                classes = [ast.unparse(a) for a in c.args[2:]]
                if any(isinstance(a, ast.Starred) for a in c.args):
                    raise Unsupported("%s: starred designated classes" % fn.name)
            if not meths:
                # method passed as parameter: collect call sites in server.py
                stree, _ = parse("server.py")
                for call in ast.walk(stree):
                    if isinstance(call, ast.Call) and ast.unparse(call.func).endswith("." + fn.name) and call.args:
                        meths |= set(re.findall(r"Method\.([A-Z0-9]{3})", ast.unparse(call.args[0])))
            if not meths:
                raise Unsupported("%s: wire method not identified" % fn.name)
            for m in meths:
                if m in des:
                    raise Unsupported("two writers for method " + m)
                des[m] = (fn.name, classes)
    out += "/-- wire method -> (writer function, classes its error reply may type). -/\n"
    out += "def designated : List (String × String × List String) :=\n [" + ",\n  ".join(
        "(%s, %s, [%s])" % (lean_str(m), lean_str(fn), ", ".join(lean_str(c) for c in cl)) for m, (fn, cl) in sorted(des.items())) + "]\n\n"
    import hashlib
    out += "/-- digest of the source text of `_append_exceptions`, `_handle_exception`, `_write_init` (hand-modelled in\n"
    out += "    Errors.lean; a change of this digest is reported as a broken tie by the check). -/\n"
    dig = hashlib.sha256("\n".join(shapes.get(k, "") for k in sorted(shapes)).encode()).hexdigest()[:16]
    out += "def errorShapeDigest : String := %s\n\nend Ari.Gen\n" % lean_str(dig)
    return out


# ------------------------------------------------------------------------------------- G4
def gen_pool():
    tree, path = parse("server.py")
    srv = find_class(tree, "Server")
    consts = class_consts(srv, "int", ["Server", "self"])
    init = find_func(srv, "__init__")
    stmts, ok_exec = [], False
    for s in init.body:
        src = ast.unparse(s)
        if "thread_pool_size" in src and "ThreadPoolExecutor" not in src or src.startswith("pool ") or src.startswith("if pool"):
            stmts.append(s)
        if src == "self._executor = ThreadPoolExecutor(self._config['thread_pool_size'])":
            ok_exec = True
    if not ok_exec:
        raise Unsupported("Server.__init__: executor is not created with the configured pool size")

    def cfg(tr, s, env):
        a, t = tr.ex(s.value, env)
        if t != "int":
            tr.bad(s, "pool size type " + t)
        e = dict(env)
        e["$size"] = (a, "int")
        return e

    def try_cpu(tr, s, env):
        if len(s.body) != 1 or ast.unparse(s.body[0]) != "self._config['thread_pool_size'] = cpu_count()" \
                or len(s.handlers) != 1 or ast.unparse(s.handlers[0].type) != "NotImplementedError" \
                or len(s.handlers[0].body) != 1 or s.orelse or s.finalbody:
            tr.bad(s, "cpu_count try shape")
        h = s.handlers[0].body[0]
        if ast.unparse(h.targets[0]) != "self._config['thread_pool_size']":
            tr.bad(s, "cpu_count fallback target")
        a, t = tr.ex(h.value, env)
        e = dict(env)
        e["$size"] = ("(match cpu with | some c => c | none => %s)" % a, "int")
        return e
    tr = Tr(path, consts, "int", effects={"self._config['thread_pool_size']": ("assign", cfg), "try": ("try", try_cpu)})

    def fin(e):
        if "$size" not in e:
            raise Unsupported("pool size not assigned on some path")
        return e["$size"][0]
    body = tr.block(stmts, {"thread_pool_size": ("size", "oint")}, fin)
    out = HEADER % "server.py (Server.__init__ pool sizing)"
    out += "namespace Ari.Gen\n\n/-- number of pool workers; `cpu` = `cpu_count()` (`none` = NotImplementedError). -/\n"
    out += "def poolSize (size : Option Int) (cpu : Option Int) : Int :=\n %s\n\nend Ari.Gen\n" % body
    return out


TARGETS = [("KeepAlive", gen_keepalive), ("Version", gen_version), ("Exc", gen_exc), ("Pool", gen_pool)]


def regenerate():
    """Returns {'generated': [names], 'broken': [{'target','why'}]}."""
    res = {"generated": [], "broken": []}
    for name, fn in TARGETS:
        path = os.path.join(GEN, name + ".lean")
        try:
            text = fn()
        except Unsupported as e:
            res["broken"].append({"target": name, "why": "UNSUPPORTED " + str(e)})
            continue
        except SyntaxError as e:
            res["broken"].append({"target": name, "why": "source does not parse: %s" % e})
            continue
        changed = write_if_changed(path, text)
        res["generated"].append({"target": name, "file": os.path.relpath(path, C.VERIF), "changed_this_run": changed})
    return res


# ------------------------------------------------------------------------------------- G5: request layouts
class _Layout:
    """Symbolic collection, in evaluation order, of the typed reads a read_* function performs."""

    def __init__(self, mod_tree, path):
        self.funcs = {n.name: n for n in mod_tree.body if isinstance(n, ast.FunctionDef)}
        self.path = path
        self.table = None
        self.chunk = None

    def bad(self, node, why):
        raise Unsupported("%s:%d: layout extraction: %s" % (os.path.relpath(self.path, C.REPO), getattr(node, "lineno", 0), why))

    def ev(self, node, env):
        """constant-evaluate an offset / flag expression."""
        if isinstance(node, ast.Constant):
            return node.value
        if isinstance(node, ast.Name) and node.id in env:
            return env[node.id]
        if isinstance(node, ast.BinOp) and isinstance(node.op, ast.Add):
            a, b = self.ev(node.left, env), self.ev(node.right, env)
            if isinstance(a, int) and isinstance(b, int):
                return a + b
        self.bad(node, "cannot evaluate " + ast.unparse(node))

    def visit(self, node, env, out):
        """visit in evaluation (source) order."""
        if isinstance(node, ast.Call):
            fn = ast.unparse(node.func)
            if fn == "read":
                ty = self.ev(node.args[1], env)
                out.append(("slot", ty, self.ev(node.args[2], env)))
                return
            if fn in ("read_map", "read_seq"):
                if len(node.args) != 2:
                    self.bad(node, fn + " with a length argument")
                out.append((fn[5:], self.ev(node.args[1], env)))
                return
            if fn == "_read_tables":
                out.append(("tables", self.ev(node.args[1], env)))
                self.tables_layout()
                return
            if fn in self.funcs and fn.startswith("_read"):
                f = self.funcs[fn]
                params = [a.arg for a in f.args.args]
                defaults = dict(zip(params[len(params) - len(f.args.defaults):], [self.ev(d, {}) for d in f.args.defaults]))
                env2 = dict(defaults)
                for pname, a in zip(params[1:], node.args[1:]):
                    env2[pname] = self.ev(a, env)
                for kw in node.keywords:
                    env2[kw.arg] = self.ev(kw.value, env)
                self.body(f, env2, out)
                return
            for a in node.args:
                self.visit(a, env, out)
            for kw in node.keywords:
                self.visit(kw.value, env, out)
            return
        if isinstance(node, ast.IfExp):
            t = self.ev(node.test, env)
            self.visit(node.body if t else node.orelse, env, out)
            return
        if isinstance(node, ast.Dict):
            for v in node.values:
                self.visit(v, env, out)
            return
        if isinstance(node, (ast.ListComp, ast.For, ast.While, ast.If, ast.Try)):
            self.bad(node, "control flow inside a read_* function")
        for child in ast.iter_child_nodes(node):
            self.visit(child, env, out)

    def body(self, f, env, out):
        for st in f.body:
            if isinstance(st, ast.Expr) and isinstance(st.value, ast.Constant):
                continue
            self.visit(st, env, out)

    def tables_layout(self):
        f = self.funcs["_read_tables"]
        src = ast.unparse(f)
        m = re.search(r"tb_segs\[i:i \+ (\d+)\] for i in range\(0, len\(tb_segs\), (\d+)\)", src)
        m2 = re.search(r"\[_read_table\(table, 0\) for table in tb_chunks\]", src)
        if not m or m.group(1) != m.group(2) or not m2 or "tb_segs = data[offset:]" not in src:
            raise Unsupported("_read_tables shape changed")
        self.chunk = int(m.group(1))
        out = []
        self.body(self.funcs["_read_table"], {"offset": 0, "with_selector": True}, out)
        self.table = out


def gen_layouts():
    out = HEADER % "data_protocol.py / metadata_protocol.py (the typed reads of every read_* function, in evaluation order)"
    out += "namespace Ari.Gen\n\n"
    rows = []
    table, chunk = None, None
    for rel in ("data_protocol.py", "metadata_protocol.py"):
        tree, path = parse(rel)
        L = _Layout(tree, path)
        for fn in tree.body:
            if not isinstance(fn, ast.FunctionDef) or not fn.decorator_list:
                continue
            d = fn.decorator_list[0]
            if not (isinstance(d, ast.Call) and ast.unparse(d.func) == "remoting_exception_on_parse"):
                continue
            m = re.fullmatch(r"Method\.([A-Z0-9]{3})", ast.unparse(d.args[0]))
            if not m:
                raise Unsupported("%s: decorator argument %s" % (fn.name, ast.unparse(d.args[0])))
            got = []
            L.body(fn, {}, got)
            slots = [(t, o) for k, t, o in [g for g in got if g[0] == "slot"]]
            tails = [g for g in got if g[0] != "slot"]
            if len(tails) > 1 or (tails and got[-1][0] == "slot"):
                raise Unsupported("%s: a variable-length part that is not last" % fn.name)
            rows.append((m.group(1), slots, tails[0] if tails else None))
        if L.table is not None:
            table, chunk = L.table, L.chunk
    if table is None:
        raise Unsupported("table layout not found")
    out += "/-- per request method: the typed reads (type marker, token offset) in evaluation order, then the variable part. -/\n"
    out += "def layouts : List (String × List (Char × Nat) × Option (String × Nat)) :=\n [" + ",\n  ".join(
        "(%s, [%s], %s)" % (lean_str(m), ", ".join("('%s', %d)" % (t, o) for t, o in slots),
                            "none" if tail is None else "some (%s, %d)" % (lean_str(tail[0]), tail[1])) for m, slots, tail in rows) + "]\n\n"
    out += "/-- `_read_table(chunk, 0)`: the typed reads of one table descriptor. -/\n"
    out += "def tableLayout : List (Char × Nat) :=\n [" + ", ".join("('%s', %d)" % (t, o) for k, t, o in table) + "]\n\n"
    out += "/-- `_read_tables`: tokens per table descriptor. -/\ndef tableChunk : Nat := %d\n\nend Ari.Gen\n" % chunk
    return out


TARGETS.append(("Layouts", gen_layouts))


# ------------------------------------------------------------------------------------- G6: documented contract
def gen_docs():
    """`:raises` clauses of the adapter interfaces and the adapter methods each `_on_<method>` handler calls."""
    out = HEADER % "interfaces/{data,metadata}.py (docstrings), server.py (_on_* handlers)"
    out += "namespace Ari.Gen\n\n"
    raises = []
    for rel, cls in (("interfaces/metadata.py", "MetadataProvider"), ("interfaces/data.py", "DataProvider")):
        t, _ = parse(rel)
        c = find_class(t, cls)
        if c is None:
            raise Unsupported("class %s not found" % cls)
        for f in c.body:
            if isinstance(f, ast.FunctionDef):
                doc = ast.get_docstring(f) or ""
                rs = re.findall(r":raises\s+([A-Za-z_.\\\s]+?):", doc)
                rs = [x.replace("\\", "").split(".")[-1].strip() for x in rs]
                raises.append(("%s.%s" % (cls, f.name), rs))
    out += "/-- adapter method -> exception classes its docstring declares with `:raises`. -/\n"
    out += "def raisesDoc : List (String × List String) :=\n [" + ",\n  ".join(
        "(%s, [%s])" % (lean_str(f), ", ".join(lean_str(x) for x in rs)) for f, rs in raises) + "]\n\n"
    stree, _ = parse("server.py")
    init_fn = None
    for cls in stree.body:
        if isinstance(cls, ast.ClassDef):
            for f in cls.body:
                if isinstance(f, ast.FunctionDef) and f.name == "_on_init":
                    init_fn = f

    def adapter_calls(fn, recv):
        calls = [c for c in ast.walk(fn) if isinstance(c, ast.Call) and isinstance(c.func, ast.Attribute)
                 and ast.unparse(c.func.value) == recv]
        calls.sort(key=lambda c: (c.lineno, c.col_offset))
        return [c.func.attr for c in calls]
    table = []
    for scls, acls in (("MetadataProviderServer", "MetadataProvider"), ("DataProviderServer", "DataProvider")):
        c = find_class(stree, scls)
        if c is None:
            raise Unsupported("class %s not found" % scls)
        for f in c.body:
            m = isinstance(f, ast.FunctionDef) and re.fullmatch(r"_on_([a-z]{3})", f.name)
            if not m:
                continue
            names = adapter_calls(f, "self._adapter")
            inits = [x for x in ast.walk(f) if isinstance(x, ast.Call) and ast.unparse(x.func) == "self._on_init"]
            if inits:
                if init_fn is None or len(inits) != 1:
                    raise Unsupported("_on_init call shape in " + f.name)
                # calls guarded by `if invoke_listener is True:` count only when the handler passes True
                flag = [a for a in inits[0].args[5:6]] + [k.value for k in inits[0].keywords if k.arg == "invoke_listener"]
                if flag and not isinstance(flag[0], ast.Constant):
                    raise Unsupported("invoke_listener argument in " + f.name)
                listener = bool(flag) and flag[0].value is True
                guarded = set()
                for st in ast.walk(init_fn):
                    if isinstance(st, ast.If) and ast.unparse(st.test) == "invoke_listener is True":
                        guarded |= {id(c) for b in st.body for c in ast.walk(b)}
                calls = [c for c in ast.walk(init_fn) if isinstance(c, ast.Call) and isinstance(c.func, ast.Attribute)
                         and ast.unparse(c.func.value) == "adapter" and (listener or id(c) not in guarded)]
                calls.sort(key=lambda c: (c.lineno, c.col_offset))
                names = [c.func.attr for c in calls] + names
            table.append((m.group(1).upper(), ["%s.%s" % (acls, n) for n in names]))
    out += "/-- wire method -> adapter methods its `_on_<method>` handler calls, in source order. -/\n"
    out += "def adapterCalls : List (String × List String) :=\n [" + ",\n  ".join(
        "(%s, [%s])" % (lean_str(m), ", ".join(lean_str(x) for x in ns)) for m, ns in table) + "]\n\nend Ari.Gen\n"
    return out


TARGETS.append(("Docs", gen_docs))


# ------------------------------------------------------------------------------------- G7: structural skeletons
BUILTINS = {"len", "str", "isinstance", "bytes", "int", "float", "max", "min", "dict", "list", "tuple", "set", "repr", "format", "type", "super", "print", "bool", "range", "enumerate", "zip", "sorted", "iter", "next", "getattr", "hasattr"}


def skeleton(fn, cls_name=None):
    """ordered structural events of a function body (no local names, no logging; the conditions of `if` / `while` are kept
    with local names anonymised)."""
    out = []
    local_names = {a.arg for a in ast.walk(fn) if isinstance(a, ast.arg)} | \
                  {n.id for n in ast.walk(fn) if isinstance(n, ast.Name) and isinstance(n.ctx, (ast.Store, ast.Del))}
    local_names.discard("self")

    class _Anon(ast.NodeTransformer):
        def visit_Name(self, node):
            return ast.copy_location(ast.Name(id="_", ctx=node.ctx), node) if node.id in local_names else node

    def shape(test):
        import copy
        return ast.unparse(_Anon().visit(copy.deepcopy(test)))

    def callee(f):
        try:
            return ast.unparse(f)
        except Exception:
            return "?"

    def expr(e):
        """events of an expression, in evaluation (source) order"""
        if e is None:
            return
        for n in _walk_expr(e):
            pass

    def _walk_expr(e):
        # post-order: arguments before the call itself
        if e is None:
            return []
        if isinstance(e, ast.Call):
            if is_logging(ast.Expr(value=e)):
                return []
            if isinstance(e.func, ast.Attribute):
                _walk_expr(e.func.value)
            for a in e.args:
                _walk_expr(a.value if isinstance(a, ast.Starred) else a)
            for k in e.keywords:
                _walk_expr(k.value)
            name = callee(e.func)
            base = name.split(".")[-1]
            if not (isinstance(e.func, ast.Name) and name in BUILTINS) and base not in ("format", "join", "encode", "decode"):
                out.append("C " + name)
            return []
        if isinstance(e, ast.Attribute):
            if isinstance(e.value, ast.Name) and e.value.id == "self" and isinstance(e.ctx, ast.Load):
                out.append("R self." + e.attr)
                return []
            _walk_expr(e.value)
            return []
        if isinstance(e, (ast.Lambda, ast.GeneratorExp, ast.ListComp, ast.SetComp, ast.DictComp)):
            for c in ast.iter_child_nodes(e):
                _walk_expr(c)
            return []
        for c in ast.iter_child_nodes(e):
            if isinstance(c, ast.expr):
                _walk_expr(c)
            elif isinstance(c, ast.comprehension):
                _walk_expr(c.iter)
                for i in c.ifs:
                    _walk_expr(i)
            elif isinstance(c, ast.keyword):
                _walk_expr(c.value)
        return []

    def target(t):
        if isinstance(t, (ast.Tuple, ast.List)):
            for x in t.elts:
                target(x)
            return
        base = t
        sub = False
        while isinstance(base, ast.Subscript):
            _walk_expr(base.slice)
            base = base.value
            sub = True
        if isinstance(base, ast.Attribute) and isinstance(base.value, ast.Name) and base.value.id == "self":
            out.append("W self." + base.attr + ("[]" if sub else ""))
        elif isinstance(base, ast.Attribute):
            _walk_expr(base.value)
            out.append("W ." + base.attr)
        # plain local names: not recorded

    def block(stmts):
        for s in stmts:
            stmt(s)

    def stmt(s):
        if is_logging(s):
            return
        if isinstance(s, ast.Expr):
            if isinstance(s.value, ast.Constant):
                return                      # docstring
            _walk_expr(s.value)
            if isinstance(s.value, (ast.Yield, ast.YieldFrom)):
                out.append("YIELD")
        elif isinstance(s, ast.Assign):
            _walk_expr(s.value)
            for t in s.targets:
                target(t)
        elif isinstance(s, ast.AugAssign):
            _walk_expr(s.value)
            if isinstance(s.target, ast.Attribute) and isinstance(s.target.value, ast.Name) and s.target.value.id == "self":
                out.append("R self." + s.target.attr)
            target(s.target)
        elif isinstance(s, ast.AnnAssign):
            _walk_expr(s.value)
            target(s.target)
        elif isinstance(s, ast.Delete):
            for t in s.targets:
                target(t)
        elif isinstance(s, ast.With):
            names = []
            for it in s.items:
                nm = ast.unparse(it.context_expr)
                names.append(nm)
                out.append("L+ " + nm)
            block(s.body)
            for nm in reversed(names):
                out.append("L- " + nm)
        elif isinstance(s, ast.If):
            _walk_expr(s.test)
            out.append("IF " + shape(s.test))
            block(s.body)
            if s.orelse:
                out.append("ELSE")
                block(s.orelse)
            out.append("END")
        elif isinstance(s, ast.While):
            _walk_expr(s.test)
            out.append("WHILE " + shape(s.test))
            block(s.body)
            out.append("END")
        elif isinstance(s, ast.For):
            _walk_expr(s.iter)
            out.append("FOR")
            block(s.body)
            out.append("END")
        elif isinstance(s, ast.Try):
            out.append("TRY")
            block(s.body)
            for h in s.handlers:
                out.append("EXCEPT " + (ast.unparse(h.type) if h.type is not None else "*"))
                block(h.body)
            if s.orelse:
                out.append("ELSE")
                block(s.orelse)
            if s.finalbody:
                out.append("FINALLY")
                block(s.finalbody)
            out.append("END")
        elif isinstance(s, ast.Return):
            _walk_expr(s.value)
            out.append("RETURN")
        elif isinstance(s, ast.Raise):
            _walk_expr(s.exc)
            out.append("RAISE")
        elif isinstance(s, ast.Break):
            out.append("BREAK")
        elif isinstance(s, ast.Continue):
            out.append("CONTINUE")
        elif isinstance(s, ast.Pass):
            pass
        elif isinstance(s, (ast.FunctionDef,)):
            out.append("DEF " + s.name)
            block(s.body)
            out.append("END")
        elif isinstance(s, (ast.Import, ast.ImportFrom, ast.Global, ast.Nonlocal)):
            pass
        else:
            raise Unsupported("skeleton: statement %s" % type(s).__name__)
    block(fn.body)
    return out


ALL = None      # every method of the class


GROUPS = {
    "Sub": [("subscription.py", "_ItemTaskManager", ALL),
            ("subscription.py", "ItemTask", ALL),
            ("subscription.py", "SubscriptionManager", ALL),
            ("server.py", "DataProviderServer", ["_on_sub", "_on_usb", "update", "end_of_snapshot", "clear_snapshot", "failure", "_send_notify", "_handle_exception"])],
    "Sender": [("server.py", "_Sender", ALL)],
    "Reader": [("server.py", "_RequestManager", ALL),
               ("server.py", "Server", ["on_received_request", "on_exception", "on_ioexception", "_handle_exception", "_handle_ioexception"])],
    "Lifecycle": [("server.py", "Server", ["start", "close", "_send_remote_credentials", "_send_reply"]),
                  ("server.py", "DataProviderServer", ["start", "_on_request_manager_started"]),
                  ("server.py", "MetadataProviderServer", ["start", "_on_request_manager_started"])],
    "MetaPool": [("server.py", "MetadataProviderServer", ["_handle_request"]),
                 ("server.py", "DataProviderServer", ["_handle_request"])],
}

WATCHED_ATTRS = ["init_expected", "_close_expected", "_code", "_queued", "_isrunning", "_last_subscribe_outcome", "_active_items",
                 "_tasks_deq", "_keepalive", "_configured_keep_alive", "_send_queue", "_request_manager", "_server_sock", "_executor"]


def gen_skeleton():
    """Structural skeleton (lock sections, shared-state reads/writes, calls, control structure; no local names, literals,
    logging or comments) of the thread-facing code, per group, and the methods that write each watched attribute."""
    out = HEADER % "subscription.py, server.py (structural skeletons of the concurrent code)"
    out += "namespace Ari.Gen\n\n"
    trees = {}
    for g, specs in GROUPS.items():
        rows = []
        for rel, cls, fns in specs:
            if rel not in trees:
                trees[rel] = parse(rel)[0]
            c = find_class(trees[rel], cls)
            if c is None:
                raise Unsupported("class %s not found" % cls)
            defs = [x for x in c.body if isinstance(x, ast.FunctionDef)]
            if fns is ALL:
                chosen = defs
            else:
                chosen = []
                for fname in fns:
                    f = [x for x in defs if x.name == fname]
                    if len(f) != 1:
                        raise Unsupported("%s.%s: %d definitions" % (cls, fname, len(f)))
                    chosen.append(f[0])
            for f in chosen:
                rows.append(("%s.%s" % (cls, f.name), skeleton(f)))
        out += "/-- group %s -/\ndef skel%s : List (String × List String) :=\n [" % (g, g) + ",\n  ".join(
            "(%s, [%s])" % (lean_str(n), ", ".join(lean_str(t) for t in sk)) for n, sk in rows) + "]\n\n"
    writers = {a: [] for a in WATCHED_ATTRS}
    for rel in ("subscription.py", "server.py"):
        t = trees.get(rel) or parse(rel)[0]
        for c in t.body:
            if not isinstance(c, ast.ClassDef):
                continue
            for f in c.body:
                if not isinstance(f, ast.FunctionDef):
                    continue
                hit = set()
                for n in ast.walk(f):
                    tg = []
                    if isinstance(n, ast.Assign):
                        tg = n.targets
                    elif isinstance(n, (ast.AugAssign, ast.AnnAssign)):
                        tg = [n.target]
                    elif isinstance(n, ast.Delete):
                        tg = n.targets
                    for x in tg:
                        for y in ast.walk(x):
                            if isinstance(y, ast.Attribute) and y.attr in writers and isinstance(y.ctx, (ast.Store, ast.Del)):
                                hit.add(y.attr)
                            if isinstance(y, ast.Subscript) and isinstance(y.value, ast.Attribute) and y.value.attr in writers and isinstance(y.ctx, (ast.Store, ast.Del)):
                                hit.add(y.value.attr)
                    if isinstance(n, ast.Call) and isinstance(n.func, ast.Name) and n.func.id == "setattr":
                        raise Unsupported("setattr in %s.%s" % (c.name, f.name))
                for a in sorted(hit):
                    writers[a].append("%s.%s" % (c.name, f.name))
    out += "/-- watched attribute -> methods that assign it (whole package, source order). -/\n"
    out += "def writers : List (String × List String) :=\n [" + ",\n  ".join(
        "(%s, [%s])" % (lean_str(a), ", ".join(lean_str(m) for m in ms)) for a, ms in writers.items()) + "]\n\nend Ari.Gen\n"
    return out


TARGETS.append(("Skeleton", gen_skeleton))


def changed_functions():
    """Names of the functions whose structural skeleton in the CURRENT source differs from the recorded one
    (lean/AriVerif/Spec/Skeleton.lean) — used to aim the fine-grained exploration at what changed.  Empty when nothing did."""
    try:
        spec = open(os.path.join(C.LEAN, "AriVerif", "Spec", "Skeleton.lean"), encoding="utf-8").read()
    except OSError:
        return set()
    recorded = {}
    for m in re.finditer(r'^\s*\[?\("([A-Za-z_][A-Za-z0-9_.]*)", \[(.*?)\]\)[,\]]*\s*$', spec, re.M):
        recorded[m.group(1)] = re.findall(r'"((?:[^"\\]|\\.)*)"', m.group(2))
    out = set()
    trees = {}
    try:
        for g, specs in GROUPS.items():
            for rel, cls, fns in specs:
                if rel not in trees:
                    trees[rel] = parse(rel)[0]
                c = find_class(trees[rel], cls)
                if c is None:
                    continue
                for f in c.body:
                    if isinstance(f, ast.FunctionDef) and (fns is ALL or f.name in fns):
                        key = "%s.%s" % (cls, f.name)
                        try:
                            sk = skeleton(f)
                        except Unsupported:
                            out.add(f.name)
                            continue
                        if key in recorded and recorded[key] != [lean_str(t)[1:-1] for t in sk]:
                            out.add(f.name)
                            out |= {n.name for n in ast.walk(f) if isinstance(n, ast.FunctionDef)}
                        elif key not in recorded and fns is ALL:
                            out.add(f.name)
    except (Unsupported, SyntaxError):
        pass
    return out


# ------------------------------------------------------------------------------------- G8: state outside the instances
# The Lean models treat the codec layer (protocol.py, data_protocol.py, metadata_protocol.py) as PURE functions and every
# server / connection / item manager as the sole owner of its state.  The sequential differentials cannot see a violation of
# that assumption (a memo in a module global, a class-level container, a caching decorator, a descriptor that stores on
# itself behave identically in one thread and one instance), so the assumption itself is extracted from the source: every
# place where a function writes state that outlives the call and is not reached through `self` (or another parameter / local).
_MUTATORS = {"append", "appendleft", "extend", "extendleft", "insert", "add", "update", "setdefault", "pop", "popleft", "popitem",
             "clear", "remove", "discard", "sort", "reverse", "put", "put_nowait", "set", "__setitem__", "__setattr__", "move_to_end"}
_CONTAINERS = {"list", "dict", "set", "deque", "defaultdict", "OrderedDict", "Counter", "Queue", "Event", "Lock", "RLock",
               "WeakValueDictionary", "WeakKeyDictionary", "local", "bytearray"}
STATE_FILES = ["protocol.py", "data_protocol.py", "metadata_protocol.py", "subscription.py", "server.py", "exceptions.py"]


def _base_name(node):
    via_class = False
    while isinstance(node, (ast.Attribute, ast.Subscript, ast.Call)):
        if isinstance(node, ast.Attribute) and node.attr == "__class__":
            via_class = True
        if isinstance(node, ast.Call):
            if isinstance(node.func, ast.Name) and node.func.id == "type":
                via_class = True
            node = node.func if not isinstance(node.func, ast.Name) else (node.args[0] if node.args else node.func)
            continue
        node = node.value
    return (node.id if isinstance(node, ast.Name) else None), via_class


def _shared_state_of(rel):
    try:
        tree, _ = parse(rel)
    except OSError:
        return []
    rows = []
    mod_names = set()
    for n in tree.body:
        if isinstance(n, (ast.FunctionDef, ast.ClassDef)):
            mod_names.add(n.name)
        elif isinstance(n, (ast.Import, ast.ImportFrom)):
            mod_names |= {(a.asname or a.name).split(".")[0] for a in n.names}
        else:
            mod_names |= {t.id for t in ast.walk(n) if isinstance(t, ast.Name) and isinstance(t.ctx, ast.Store)}

    def is_container(v):
        if isinstance(v, (ast.List, ast.Dict, ast.Set, ast.ListComp, ast.DictComp, ast.SetComp)):
            return True
        if isinstance(v, ast.Call):
            f = v.func
            nm = f.id if isinstance(f, ast.Name) else f.attr if isinstance(f, ast.Attribute) else None
            return nm in _CONTAINERS
        return False

    def visit_fn(fn, qual, outer_locals):
        args = fn.args
        params = {a.arg for a in args.posonlyargs + args.args + args.kwonlyargs}
        if args.vararg:
            params.add(args.vararg.arg)
        if args.kwarg:
            params.add(args.kwarg.arg)
        for d in list(args.defaults) + [d for d in args.kw_defaults if d is not None]:
            if is_container(d):
                rows.append((qual, "mutable-default " + ast.unparse(d)))
        for d in fn.decorator_list:
            src = ast.unparse(d)
            if "cache" in src.lower() or "memo" in src.lower():
                rows.append((qual, "decorator " + src))
        declared = set()
        own = []

        def collect(node):
            for ch in ast.iter_child_nodes(node):
                if isinstance(ch, (ast.FunctionDef, ast.AsyncFunctionDef, ast.Lambda, ast.ClassDef)):
                    if not isinstance(ch, ast.Lambda):
                        own.append(ch)
                    continue
                yield ch
                yield from collect(ch)
        nodes = list(collect(fn))
        for n in nodes:
            if isinstance(n, (ast.Global, ast.Nonlocal)):
                declared |= set(n.names)
                rows.append((qual, ("global " if isinstance(n, ast.Global) else "nonlocal ") + ",".join(n.names)))
        locals_ = set(params)
        for n in nodes:
            if isinstance(n, ast.Name) and isinstance(n.ctx, ast.Store) and n.id not in declared:
                locals_.add(n.id)
            elif isinstance(n, (ast.ExceptHandler,)) and n.name:
                locals_.add(n.name)
            elif isinstance(n, (ast.Import, ast.ImportFrom)):
                locals_ |= {(a.asname or a.name).split(".")[0] for a in n.names}
        scope = locals_ | outer_locals
        first = args.args[0].arg if args.args else None

        def shared(target):
            base, via_class = _base_name(target)
            if via_class:
                return True
            if base is None:
                return False
            if base == "cls" and first == "cls":
                return True
            return base not in scope and base in mod_names

        for n in nodes:
            targets = []
            if isinstance(n, ast.Assign):
                targets = n.targets
            elif isinstance(n, (ast.AugAssign, ast.AnnAssign)):
                targets = [n.target]
            elif isinstance(n, ast.Delete):
                targets = n.targets
            for t in targets:
                for tt in (t.elts if isinstance(t, (ast.Tuple, ast.List)) else [t]):
                    if isinstance(tt, (ast.Attribute, ast.Subscript)) and shared(tt):
                        rows.append((qual, "store " + ast.unparse(tt)))
            if isinstance(n, ast.Call) and isinstance(n.func, ast.Attribute) and n.func.attr in _MUTATORS and shared(n.func.value) \
                    and not (isinstance(n.func.value, ast.Name) and n.func.value.id in ("os", "sys", "logging", "traceback")):
                rows.append((qual, "mutate " + ast.unparse(n.func)))
            # the models' queues are unbounded FIFOs (a `put` never blocks, order is arrival order): any queue built with
            # arguments, or of another discipline, is a different object
            if isinstance(n, ast.Call):
                fnm = n.func.id if isinstance(n.func, ast.Name) else n.func.attr if isinstance(n.func, ast.Attribute) else None
                if fnm in ("Queue", "SimpleQueue", "deque") and (n.args or n.keywords) and not (fnm == "deque" and not n.keywords and len(n.args) == 1):
                    rows.append((qual, "queue-shape " + ast.unparse(n)[:60]))
                elif fnm in ("LifoQueue", "PriorityQueue"):
                    rows.append((qual, "queue-shape " + ast.unparse(n)[:60]))
            if isinstance(n, ast.Call) and isinstance(n.func, ast.Name) and n.func.id == "setattr" and n.args and shared(n.args[0]):
                rows.append((qual, "setattr " + ast.unparse(n.args[0])))
        for ch in own:
            if isinstance(ch, ast.ClassDef):
                visit_class(ch, qual + "." + ch.name, scope)
            else:
                visit_fn(ch, qual + "." + ch.name, scope)

    def visit_class(cls, qual, outer_locals):
        meths = {m.name for m in cls.body if isinstance(m, ast.FunctionDef)}
        if meths & {"__set__", "__get__", "__delete__"}:
            rows.append((qual, "descriptor " + ",".join(sorted(meths & {"__set__", "__get__", "__delete__", "__set_name__"}))))
        for n in cls.body:
            if isinstance(n, (ast.Assign, ast.AnnAssign)) and n.value is not None and is_container(n.value):
                tg = n.targets[0] if isinstance(n, ast.Assign) else n.target
                rows.append((qual, "class-attribute %s = %s" % (ast.unparse(tg), ast.unparse(n.value)[:40])))
            elif isinstance(n, ast.FunctionDef):
                visit_fn(n, qual + "." + n.name, outer_locals)
            elif isinstance(n, ast.ClassDef):
                visit_class(n, qual + "." + n.name, outer_locals)

    for n in tree.body:
        if isinstance(n, ast.FunctionDef):
            visit_fn(n, n.name, set())
        elif isinstance(n, ast.ClassDef):
            visit_class(n, n.name, set())
    return [(rel + ":" + q, w) for q, w in rows]


def shared_state_rows():
    rows = []
    for rel in STATE_FILES:
        rows += _shared_state_of(rel)
    return rows


def gen_state():
    rows = shared_state_rows()
    out = HEADER % "every module of lightstreamer_adapter (writes to state that is not reached through self / a parameter / a local)"
    out += "namespace Ari.Gen\n\n"
    out += "/-- (file:function, what): module-level or class-level state written inside a function, caching decorators, mutable\n"
    out += "    default arguments, class-level containers, descriptors — everything that would make a codec function impure or let two\n"
    out += "    server / connection / item instances share state. -/\n"
    out += "def sharedState : List (String × String) :=\n [" + ",\n  ".join("(%s, %s)" % (lean_str(a), lean_str(b)) for a, b in rows) + "]\n\n"
    out += "end Ari.Gen\n"
    return out


TARGETS.append(("State", gen_state))


def state_functions():
    """function names (last component) in which the CURRENT source writes shared state that the record does not list."""
    try:
        spec = open(os.path.join(C.LEAN, "AriVerif", "Spec", "State.lean"), encoding="utf-8").read()
    except OSError:
        spec = ""
    out = {}
    for a, b in shared_state_rows():
        if "(%s, %s)" % (lean_str(a), lean_str(b)) not in spec:
            rel, q = a.split(":", 1)
            out.setdefault(rel, set()).add(q.split(".")[-1])
    return out


if __name__ == "__main__":
    import json
    print(json.dumps(regenerate(), indent=1))
