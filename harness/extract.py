"""Translator: regenerates AriVerif/Gen/*.lean from /repo's current source (see DESIGN §2.3)."""
import os
import common as C


def write_if_changed(path, text):
    try:
        if open(path, encoding="utf-8").read() == text:
            return False
    except OSError:
        pass
    os.makedirs(os.path.dirname(path), exist_ok=True)
    with open(path, "w", encoding="utf-8") as f:
        f.write(text)
    return True


def regenerate():
    """Returns {'generated': [names], 'broken': [{'target','why'}]}."""
    return {"generated": [], "broken": []}
