"""The harness's own conforming-Proxy-Adapter side (request encoder, reply decoder) and the
canonical text forms shared with the Lean driver.  Written from the ARI protocol, not from the
library's code: it plays the role of Spec/Ari.lean on the Python side."""
import base64
import common as C

# ---------------------------------------------------------------- request layouts (roles)
# fixed fields: (role name in the library's result, type); tail: (kind, role name)
LAYOUT = {
    "DPI": ([], ("map", None)),
    "MPI": ([], ("map", None)),
    "SUB": ([(None, "S")], None),
    "USB": ([(None, "S")], None),
    "NUS": ([("user", "S"), ("password", "S")], ("map", "httpHeaders")),
    "NUA": ([("user", "S"), ("password", "S"), ("clientPrincipal", "S")], ("map", "httpHeaders")),
    "NNS": ([("user", "S"), ("session_id", "S")], ("map", "clientContext")),
    "NSC": ([(None, "S")], None),
    "GIS": ([("user", "S"), ("group", "S"), ("session_id", "S")], None),
    "GSC": ([("user", "S"), ("group", "S"), ("schema", "S"), ("session_id", "S")], None),
    "GIT": ([], ("seq", None)),
    "GUI": ([("user", "S")], ("seq", "items")),
    "NUM": ([("user", "S"), ("session_id", "S"), ("message", "S")], None),
    "NNT": ([("user", "S"), ("session_id", "S")], ("tab", "tableInfos")),
    "NTC": ([("session_id", "S")], ("tab", "tableInfos")),
    "MDA": ([("user", "S"), ("sessionId", "S"), ("dev.type", "P"), ("dev.app", "S"), ("dev.token", "S")], None),
    "MSA": ([("user", "S"), ("session_id", "S"), ("table.win", "I"), ("table.mode", "M"), ("table.group", "S"),
             ("table.schema", "S"), ("table.min", "I"), ("table.max", "I"), ("sub.dev.type", "P"), ("sub.dev.app", "S"),
             ("sub.dev.token", "S"), ("sub.trigger", "S"), ("sub.format", "S")], None),
    "MDC": ([("user", "S"), ("sessionId", "S"), ("dev.type", "P"), ("dev.app", "S"), ("dev.token", "S"),
             ("newDeviceToken", "S")], None),
}
TABLE_TYS = ["I", "M", "S", "S", "I", "I", "S"]
READERS = {
    "DPI": ("data_protocol", "read_init"), "SUB": ("data_protocol", "read_sub"), "USB": ("data_protocol", "read_usub"),
    "MPI": ("metadata_protocol", "read_init"), "NUS": ("metadata_protocol", "read_notify_user"),
    "NUA": ("metadata_protocol", "read_notify_user_auth"), "NNS": ("metadata_protocol", "read_notify_new_session"),
    "NSC": ("metadata_protocol", "read_notifiy_session_close"), "GIS": ("metadata_protocol", "read_get_items"),
    "GSC": ("metadata_protocol", "read_get_schema"), "GIT": ("metadata_protocol", "read_get_item_data"),
    "GUI": ("metadata_protocol", "read_get_user_item_data"), "NUM": ("metadata_protocol", "read_notify_user_message"),
    "NNT": ("metadata_protocol", "read_notify_new_tables"), "NTC": ("metadata_protocol", "read_notify_tables_close"),
    "MDA": ("metadata_protocol", "read_notify_device_access"), "MSA": ("metadata_protocol", "read_subscription_activation"),
    "MDC": ("metadata_protocol", "read_device_token_change"),
}
METHODS = list(LAYOUT)
META_POST_INIT = ["NUS", "NUA", "NNS", "NSC", "GIS", "GSC", "GIT", "GUI", "NUM", "NNT", "NTC", "MDA", "MSA", "MDC"]


def reader(method):
    import importlib
    mod, fn = READERS[method]
    return getattr(importlib.import_module("lightstreamer_adapter." + mod), fn)


# ---------------------------------------------------------------- conforming encoders
JAVA_SAFE = set("abcdefghijklmnopqrstuvwxyzABCDEFGHIJKLMNOPQRSTUVWXYZ0123456789.-*_")


def enc_text(v, R=None):
    """URL-encode like java.net.URLEncoder (what the Proxy Adapter does); with R, any standard variant."""
    if v is None:
        return "#"
    if v == "":
        return "$"
    out = []
    for b in v.encode("utf-8"):
        ch = chr(b)
        k = R.random() if R else 1.0
        if ch in JAVA_SAFE and k > 0.05:
            out.append(ch)
        elif ch == "~" and k < 0.5:
            out.append("~")
        elif b == 0x20 and k > 0.2:
            out.append("+")
        elif k < 0.1:
            out.append("%%%02x" % b)
        else:
            out.append("%%%02X" % b)
    return "".join(out)


def enc_slot(ty, v, R=None):
    if ty == "S":
        return enc_text(v, R)
    if ty == "I":
        return str(v)
    if ty == "M":
        return "#" if v is None else v      # v: 'R' 'M' 'D' 'C'
    if ty == "P":
        return {None: "#", "": "$", "A": "A", "G": "G"}[v]
    raise ValueError(ty)


def encode_args(method, fixed, tail, R=None):
    """tokens of a request: fixed = list of python values, tail = dict-pairs list / list / list of 7-tuples."""
    tys, t = LAYOUT[method]
    toks = []
    for (_, ty), v in zip(tys, fixed):
        toks += [ty, enc_slot(ty, v, R)]
    if t:
        kind = t[0]
        if kind == "map":
            for k, v in tail:
                toks += ["S", enc_text(k, R), "S", enc_text(v, R)]
        elif kind == "seq":
            for v in tail:
                toks += ["S", enc_text(v, R)]
        elif kind == "tab":
            for tab in tail:
                for ty, v in zip(TABLE_TYS, tab):
                    toks += [ty, enc_slot(ty, v, R)]
    return toks


# ---------------------------------------------------------------- canonical text (must equal Proto.lean's)
def c_optstr(v):
    return "n" if v is None else "s:" + C.hx(v)


def c_val(ty, v):
    """canonical form of a decoded value in a slot of type ty."""
    if ty == "S":
        if v is None:
            return "n"
        if not isinstance(v, str):
            return "?%r" % (v,)
        return "x" if "�" in v else "s:" + C.hx(v)
    if ty == "I":
        return "i:%d" % v if isinstance(v, int) and not isinstance(v, bool) else "?%r" % (v,)
    if ty == "M":
        if v is None:
            return "m:n"
        return "m:" + getattr(v, "value", "?%r" % (v,))
    if ty == "P":
        if v is None:
            return "p:n"
        if v == "":
            return "p:e"
        return "p:" + getattr(v, "value", "?%r" % (v,))
    raise ValueError(ty)


def table_fields(t):
    return [t.win_index, t.mode, t.group, t.schema, t.min, t.max, t.selector]


def c_read_result(method, res):
    """canonical `F … T …` form of what the library's read_* returned."""
    tys, tail = LAYOUT[method]
    vals = []
    if method in ("SUB", "USB", "NSC"):
        vals = [c_val("S", res)]
    elif method in ("MDA", "MDC"):
        d = res["mpnDeviceInfo"]
        flat = {"user": res["user"], "sessionId": res["sessionId"], "dev.type": d.mpn_platform_type,
                "dev.app": d.application_id, "dev.token": d.device_token}
        if method == "MDC":
            flat["newDeviceToken"] = res["newDeviceToken"]
        vals = [c_val(ty, flat[name]) for name, ty in tys]
    elif method == "MSA":
        t, s = res["table"], res["subscription"]
        if t.selector is not None:
            vals = ["?selector"]
        flat = {"user": res["user"], "session_id": res["session_id"], "table.win": t.win_index, "table.mode": t.mode,
                "table.group": t.group, "table.schema": t.schema, "table.min": t.min, "table.max": t.max,
                "sub.dev.type": s.device.mpn_platform_type, "sub.dev.app": s.device.application_id,
                "sub.dev.token": s.device.device_token, "sub.trigger": s.trigger, "sub.format": s.notification_format}
        vals += [c_val(ty, flat[name]) for name, ty in tys]
    elif method in ("DPI", "MPI", "GIT"):
        vals = []
    else:
        vals = [c_val(ty, res[name]) for name, ty in tys]
    out = ["F"] + vals
    if tail is None:
        out += ["T", "none"]
    else:
        kind, name = tail
        tv = res if name is None else res[name]
        if kind == "map":
            out += ["T", "map"]
            for k, v in tv.items():
                out += [c_val("S", k), c_val("S", v)]
        elif kind == "seq":
            out += ["T", "seq"] + [c_val("S", v) for v in tv]
        else:
            out += ["T", "tab", str(len(tv))]
            for t in tv:
                out += [c_val(ty, v) for ty, v in zip(TABLE_TYS, table_fields(t))]
    return " ".join(out)


def c_av(v, hint=None):
    """canonical form of an argument received by an adapter method."""
    from lightstreamer_adapter.interfaces.metadata import Mode, TableInfo, MpnDeviceInfo, MpnSubscriptionInfo
    if isinstance(v, Mode):
        return "mode:" + v.value
    if isinstance(v, dict):
        items = []
        for k, x in v.items():
            items += [c_val("S", k), c_val("S", x)]
        return "d{ " + " ".join(items) + " }"
    if isinstance(v, list):
        return "l[ " + " ".join(c_av(x) for x in v) + " ]"
    if isinstance(v, TableInfo):
        return "o:TableInfo( " + " ".join("v:" + c_val(ty, x) for ty, x in zip(TABLE_TYS, table_fields(v))) + " )"
    if isinstance(v, MpnDeviceInfo):
        return "o:MpnDeviceInfo( v:%s v:%s v:%s )" % (c_val("P", v.mpn_platform_type), c_val("S", v.application_id),
                                                     c_val("S", v.device_token))
    if isinstance(v, MpnSubscriptionInfo):
        return "o:MpnSubscriptionInfo( %s v:%s v:%s )" % (c_av(v.device), c_val("S", v.trigger), c_val("S", v.notification_format))
    if isinstance(v, int) and not isinstance(v, bool):
        return "v:" + c_val("I", v)
    return "v:" + c_val("S", v)


def py_tok(v):
    """serialise an adapter-supplied Python value for the driver (Proto.parsePy)."""
    from lightstreamer_adapter.interfaces.metadata import Mode
    if v is None:
        return "N"
    if v is True:
        return "T"
    if v is False:
        return "F"
    if isinstance(v, Mode):
        return "M:" + v.value
    if isinstance(v, str):
        return "S:" + C.hx(v)
    if isinstance(v, (bytes, bytearray)):
        return "B:" + C.hx(bytes(v))
    if isinstance(v, int):
        return "I:%d" % v
    if isinstance(v, float):
        return "D:%s:%s" % (C.hx(repr(v)), "z" if v == 0 else "nz")
    if isinstance(v, (list, tuple)):
        return "L[ " + " ".join(py_tok(x) for x in v) + (" ]" if v else "]")
    return "O:%s:%s" % (type(v).__name__, "t" if v else "f")


def exc_tok(e):
    mro = [c.__name__ for c in type(e).__mro__ if c not in (BaseException, object)]
    return "%s %s %d %s %s" % (",".join(mro), C.hx(str(e)), getattr(e, "client_error_code", 0) or 0,
                               c_optstr(getattr(e, "client_user_msg", None)),
                               c_optstr(getattr(e, "conflicting_session_id", None)))


# ---------------------------------------------------------------- conforming reply decoder (C07 oracle)
def dec_text(tok):
    from urllib.parse import unquote_to_bytes
    if tok == "#":
        return None
    if tok == "$":
        return ""
    return unquote_to_bytes(tok.replace("+", " ")).decode("utf-8")


class BadReply(Exception):
    pass


def need(cond, why):
    if not cond:
        raise BadReply(why)


def decode_reply(line):
    """Parses a reply/notification body (`<METHOD>|…`, without id/timestamp) as a conforming ARI decoder:
    returns (method, kind, data)."""
    need("\r" not in line and "\n" not in line, "line break inside a message")
    t = line.split("|")
    m = t[0]
    if len(t) >= 2 and t[1].startswith("E") and m not in ("UD3", "EOS", "CLS", "FAL"):
        sub = t[1][1:]
        need(sub in ("", "M", "N", "A", "I", "S", "C", "X", "D", "U", "F"), "unknown error subtype " + sub)
        n = {"C": 3, "X": 4}.get(sub, 1)
        need(len(t) == 2 + n, "error reply arity")
        msg = dec_text(t[2])
        if sub in ("C", "X"):
            return m, "error", (sub, msg, int(t[3]), dec_text(t[4])) + ((dec_text(t[5]),) if sub == "X" else ())
        return m, "error", (sub, msg)
    if m in ("GIS", "GSC"):
        need(len(t) % 2 == 1, "odd arity")
        need(all(x == "S" for x in t[1::2]), "type markers")
        return m, "names", [dec_text(x) for x in t[2::2]]
    if m in ("GIT", "GUI"):
        need((len(t) - 1) % 6 == 0, "arity")
        out = []
        for i in range(1, len(t), 6):
            need(t[i] == "I" and t[i + 2] == "D" and t[i + 4] == "M", "type markers")
            modes = None if t[i + 5] == "#" else "" if t[i + 5] == "$" else t[i + 5]
            need(modes is None or set(modes) <= set("RMDC"), "mode codes")
            out.append((int(t[i + 1]), float(t[i + 3]), modes))
        return m, "itemdata", out
    if m in ("NUS", "NUA") and len(t) == 5:
        need(t[1] == "D" and t[3] == "B" and t[4] in ("0", "1"), "markers")
        return m, "notifyuser", (float(t[2]), t[4] == "1")
    if len(t) == 2 and t[1] == "V":
        return m, "void", None
    if m in ("MPI", "DPI", "RAC") and len(t) >= 2 and t[1] == "S":
        need(len(t) % 2 == 1 and (len(t) - 1) % 4 == 0 and all(x == "S" for x in t[1::2]), "param arity")
        return m, "params", [(t[i], dec_text(t[i + 2])) for i in range(2, len(t), 4)]
    if m == "UD3":
        need(len(t) >= 7 and t[1] == "S" and t[3] == "S" and t[5] == "B" and t[6] in ("0", "1"), "UD3 head")
        need((len(t) - 7) % 4 == 0, "UD3 arity")
        ev = []
        for i in range(7, len(t), 4):
            need(t[i] == "S" and t[i + 2] in ("S", "Y"), "UD3 pair markers")
            val = dec_text(t[i + 3]) if t[i + 2] == "S" else base64.b64decode(t[i + 3], validate=True)
            ev.append((dec_text(t[i + 1]), val))
        return m, "update", (dec_text(t[2]), dec_text(t[4]), t[6] == "1", ev)
    if m in ("EOS", "CLS"):
        need(len(t) == 5 and t[1] == "S" and t[3] == "S", m + " shape")
        return m, "itemevent", (dec_text(t[2]), dec_text(t[4]))
    if m == "FAL":
        need(len(t) == 3 and t[1] == "E", "FAL shape")
        return m, "failure", dec_text(t[2])
    raise BadReply("unrecognised reply " + line[:60])
