"""Deterministic cooperative scheduler with virtual time, and the shim objects that replace
threading / queue / ThreadPoolExecutor / socket / time / os inside lightstreamer_adapter.server and
.subscription (module attributes are assigned from the harness; nothing in /repo is edited).

Every *logical* thread is a real Python thread that runs only while it holds the baton.  A shim
operation that can block or publish is a yield point: the thread announces the operation it is about
to perform (`park(op, cond, deadline)`), the controller picks the next thread among those whose
condition holds, and the chosen thread performs its operation and runs on to its next yield point.
That stretch is one *chunk*.  A run is a function of (scenario, choices)."""
import threading as _threading
import collections
import sys as _sys


class Abort(BaseException):
    """Unwinds a logical thread when the scenario is torn down."""


class ProcessExit(BaseException):
    """os._exit() was called: the real process would be gone."""


class Unscheduled(Exception):
    """a library thread escaped the cooperative scheduler (harness limitation, never a verdict)."""


class LThread:
    def __init__(self, sched, name, target, args=(), kind="thread"):
        self.sched, self.name, self.target, self.args, self.kind = sched, name, target, args, kind
        self.baton = _threading.Semaphore(0)
        self.op = ("start", name)
        self.cond = None
        self.deadline = None
        self.timed_out = False
        self.done = False
        self.started = False
        self.real = _threading.Thread(target=self._run, name="L-" + name, daemon=True)
        self.error = None
        self.meta = {}

    def _run(self):
        self.baton.acquire()
        try:
            if self.sched.aborting:
                raise Abort()
            self.sched.current = self
            self.started = True
            self.sched.on_thread_begin(self)
            if self.sched.fine is not None:
                _sys.settrace(self.sched.tracer)
            self.target(*self.args)
        except Abort:
            pass
        except ProcessExit:
            self.sched.exited = True
        except BaseException as e:       # an exception escaping a thread body: recorded, never silent
            self.error = e
            self.sched.event("thread-died", self.name, type(e).__name__, str(e)[:120])
        finally:
            self.done = True
            self.sched.on_thread_end(self)
            self.sched.ctl.release()


class Sched:
    def __init__(self, chooser):
        self.threads = collections.OrderedDict()
        self.chooser = chooser
        self.ctl = _threading.Semaphore(0)
        self.current = None
        self.clock = 0.0
        self.events = []          # events of the chunk being executed
        self.chunks = []          # finished chunks
        self.aborting = False
        self.exited = False
        self.enabled_filter = None
        self.snapshot = None      # callable -> state snapshot after each chunk
        self.hooks_begin = []
        self.hooks_end = []
        self.max_chunks = 20000
        # fine-grained mode: a seeded RNG; every executed line of the library may become a yield point
        self.fine = None
        self.fine_p = 0.15
        self.fine_files = ("subscription.py", "server.py")
        self.fine_server_factor = 0.25      # server.py has many more (mostly thread-local) lines than subscription.py
        self.fine_focus = None              # function names to concentrate the preemptions on (see extract.changed_functions)
        self.wake_due = False               # also offer threads whose deadline has been reached while others are enabled
        self.fine_focus_p = 0.7

    def tracer(self, frame, event, arg):
        """sys.settrace hook of fine-grained mode: line-level preemption inside the library's own files (used to
        exercise the reduction assumption — that lock-protected regions are atomic for everything observable)."""
        fn = frame.f_code.co_filename
        if not fn.endswith(self.fine_files) or "lightstreamer_adapter" not in fn:
            return None

        p_here = self.fine_p if fn.endswith("subscription.py") else self.fine_p * self.fine_server_factor
        if self.fine_focus and frame.f_code.co_name in self.fine_focus:
            # a function whose structure differs from the recorded one: preempt at (nearly) every line of it
            p_here = self.fine_focus_p

        def local(frame, event, arg):
            if event == "line" and not self.aborting and self.fine.random() < p_here:
                me = self.current
                if me is not None and not me.meta.get("no_preempt"):
                    self.park(("line", frame.f_code.co_name, frame.f_lineno))
            return local
        return local

    # ---- called from logical threads
    def event(self, *e):
        self.events.append(e)

    def me(self):
        return self.current

    def spawn(self, name, target, args=(), kind="thread"):
        if name in self.threads:
            k = 2
            while "%s~%d" % (name, k) in self.threads:
                k += 1
            name = "%s~%d" % (name, k)
        t = LThread(self, name, target, args, kind)
        self.threads[name] = t
        t.real.start()
        return t

    def park(self, op, cond=None, deadline=None):
        """Announce the next operation and hand the baton back; returns True if the wait timed out."""
        t = self.current
        t.op, t.cond, t.deadline, t.timed_out = op, cond, deadline, False
        self.ctl.release()
        t.baton.acquire()
        if self.aborting:
            raise Abort()
        self.current = t
        t.cond, t.deadline = None, None
        return t.timed_out

    def on_thread_begin(self, t):
        for h in self.hooks_begin:
            h(t)

    def on_thread_end(self, t):
        for h in self.hooks_end:
            h(t)

    # ---- controller (runs in the harness thread)
    def _wait_ctl(self, t):
        """wait until the thread that was handed the baton parks again (or ends).  A thread that blocks for real — on a
        synchronisation primitive this shim does not stand in for — would keep the baton forever: give up after a minute of
        real time instead of hanging the check."""
        if not self.ctl.acquire(timeout=60):
            self.aborting = True
            raise Unscheduled("thread %s has been running for 60 s of real time without reaching a scheduling point (it blocks on a "
                              "primitive the scheduler shim does not control, or loops)" % t.name)

    def enabled(self):
        out = []
        for t in self.threads.values():
            if t.done:
                continue
            if t.cond is None or t.cond():
                out.append(t)
        return out

    def run(self, until=None):
        """Run chunks until nothing is enabled and no deadline is pending (or `until()` holds)."""
        while len(self.chunks) < self.max_chunks and not self.exited:
            if until is not None and until():
                return "until"
            en = self.enabled()
            timed = None
            if self.wake_due and en:
                # threads whose deadline has been reached are as ready as the enabled ones (simultaneous events: every order)
                due = [t for t in self.threads.values() if not t.done and t.deadline is not None and t.deadline <= self.clock
                       and t not in en]
                if due:
                    pick = self.chooser([t.name for t in en + due], {t.name: t.op for t in en + due})
                    if pick is None:
                        return "stopped"
                    t = self.threads[pick]
                    if t in due:
                        t.timed_out = True
                        timed = t
                    self.events = []
                    op = t.op
                    t.baton.release()
                    self._wait_ctl(t)
                    chunk = {"tid": t.name, "op": op, "timeout": bool(timed is t), "enabled": sorted(x.name for x in en + due), "events": self.events,
                             "clock": self.clock, "next": None if t.done else t.op, "done": t.done}
                    if self.snapshot is not None:
                        chunk["snap"] = self.snapshot()
                    self.chunks.append(chunk)
                    continue
            if not en:
                waiting = [t for t in self.threads.values() if not t.done and t.deadline is not None]
                if not waiting:
                    return "quiescent"
                timed = min(waiting, key=lambda t: (t.deadline, t.name))
                self.clock = max(self.clock, timed.deadline)
                timed.timed_out = True
                en = [timed]
            names = [t.name for t in en]
            pick = self.chooser(names, {t.name: t.op for t in en})
            if pick is None:
                return "stopped"
            t = self.threads[pick]
            self.events = []
            op = t.op
            t.baton.release()
            self._wait_ctl(t)
            chunk = {"tid": t.name, "op": op, "timeout": bool(timed is t), "enabled": sorted(names), "events": self.events,
                     "clock": self.clock, "next": None if t.done else t.op, "done": t.done}
            if self.snapshot is not None:
                chunk["snap"] = self.snapshot()
            self.chunks.append(chunk)
        return "exited" if self.exited else "limit"

    def teardown(self):
        self.aborting = True
        for t in self.threads.values():
            if not t.done:
                t.baton.release()
        for t in self.threads.values():
            t.real.join(timeout=5)


SCHED = None      # the scheduler of the scenario being run (module attribute, read at call time)


# ---------------------------------------------------------------------------------- threading
class Thread:
    def __init__(self, target=None, name=None, args=(), kwargs=None, daemon=None):
        self._target, self._name, self._args = target, name or "thread", args
        self._lt = None

    def start(self):
        nm = self._name
        short = "W" if nm.startswith("Sender-Thread") else "R" if nm.startswith("RequestReceiver") else nm
        self._lt = SCHED.spawn(short, self._target, self._args)
        SCHED.event("thread-start", self._lt.name)
        # the new thread may run before its creator continues
        SCHED.park(("after-start", self._lt.name))

    def join(self, timeout=None):
        lt = self._lt
        SCHED.park(("join", lt.name), cond=lambda: lt.done)
        SCHED.event("joined", lt.name)

    def is_alive(self):
        return self._lt is not None and not self._lt.done

    @property
    def name(self):
        return self._name


class Event:
    def __init__(self):
        self._flag = False

    def set(self):
        if SCHED is not None and getattr(SCHED, "yield_on_flags", False) and SCHED.me() is not None:
            SCHED.park(("event-set",))          # opt-in yield point (fault / app-close streams): another thread may run first
        self._flag = True
        if SCHED is not None and SCHED.me() is not None:
            SCHED.event("event-set", SCHED.me().name)

    def clear(self):
        self._flag = False

    def is_set(self):
        if SCHED is not None and SCHED.me() is not None:
            SCHED.event("event-test", SCHED.me().name, self._flag)
        return self._flag

    def wait(self, timeout=None):
        if not self._flag:
            SCHED.park(("event-wait",), cond=lambda: self._flag, deadline=None if timeout is None else round(SCHED.clock + timeout, 6))
        return self._flag


class Lock:
    _n = 0
    reentrant = False

    def __init__(self):
        Lock._n += 1
        self.owner = None
        self.depth = 0
        self.label = None

    def acquire(self, blocking=True, timeout=-1):
        me = SCHED.me()
        if self.reentrant and self.owner is me:
            self.depth += 1
            return True
        if not blocking:
            SCHED.park(("try-lock", self.label or "lock"))
            if self.owner is not None:
                return False
        else:
            me.meta["want_lock"] = self
            timed_out = SCHED.park(("lock", self.label or "lock"), cond=lambda: self.owner is None,
                                   deadline=None if timeout is None or timeout < 0 else round(SCHED.clock + timeout, 6))
            me.meta["want_lock"] = None
            if timed_out and self.owner is not None:
                return False
        self.owner, self.depth = me, 1
        me.meta["locks"] = me.meta.get("locks", 0) + 1
        return True

    def release(self):
        self.depth -= 1
        if self.depth == 0:
            self.owner.meta["locks"] -= 1
            self.owner = None

    __enter__ = acquire

    def __exit__(self, *a):
        self.release()

    def locked(self):
        return self.owner is not None


class RLock(Lock):
    reentrant = True


class ThreadingShim:
    Thread, Event, Lock, RLock = Thread, Event, Lock, RLock

    @staticmethod
    def current_thread():
        me = SCHED.me()
        return type("LT", (), {"name": me.name, "ident": id(me), "daemon": True, "is_alive": staticmethod(lambda: True)})()

    @staticmethod
    def get_ident():
        return id(SCHED.me())


# ---------------------------------------------------------------------------------- queue
class Empty(Exception):
    pass


class Full(Exception):
    pass


class Queue:
    def __init__(self, maxsize=0):
        self.items = collections.deque()
        self.maxsize = maxsize or 0

    def put(self, item, block=True, timeout=None):
        if self.maxsize > 0:
            # a bounded queue: `put` waits for room (or raises Full)
            if not block and len(self.items) >= self.maxsize:
                raise Full()
            timed_out = SCHED.park(("put", item), cond=lambda: len(self.items) < self.maxsize,
                                   deadline=None if timeout is None else round(SCHED.clock + timeout, 6))
            if timed_out and len(self.items) >= self.maxsize:
                raise Full()
        else:
            SCHED.park(("put", item))
        self.items.append(item)
        SCHED.event("enqueue", SCHED.me().name, item)

    def get(self, block=True, timeout=None):
        if block and timeout is not None and timeout < 0:
            raise ValueError("'timeout' must be a non-negative number")      # as queue.Queue.get does
        timed_out = SCHED.park(("get",), cond=lambda: len(self.items) > 0,
                               deadline=None if timeout is None else round(SCHED.clock + timeout, 6))
        if self.items and not timed_out:
            return self.items.popleft()
        if timed_out and self.items:
            # deadline and a put at the same instant: the scenario decides (both are legal)
            if SCHED.tie_prefers_item:
                return self.items.popleft()
        SCHED.event("get-timeout", SCHED.me().name, timeout)
        raise Empty()

    def qsize(self):
        return len(self.items)

    def empty(self):
        return not self.items

    def put_nowait(self, item):
        return self.put(item, block=False)

    def get_nowait(self):
        if not self.items:
            raise Empty()
        return self.get(block=False)

    def task_done(self):
        pass


class QueueShim:
    Queue, Empty, Full = Queue, Empty, Full


# ---------------------------------------------------------------------------------- executor
class CancelledError(Exception):
    pass


class Future:
    """enough of concurrent.futures.Future for code that looks at the outcome of a submitted task"""

    def __init__(self):
        self._done = False
        self._cancelled = False
        self._result = None
        self._exc = None
        self._cbs = []

    def _finish(self, result=None, exc=None):
        self._result, self._exc, self._done = result, exc, True
        for cb in self._cbs:
            try:
                cb(self)
            except Exception as e:
                SCHED.event("future-callback-exception", type(e).__name__)

    def done(self):
        return self._done or self._cancelled

    def cancelled(self):
        return self._cancelled

    def running(self):
        return not self.done()

    def cancel(self):
        return self._cancelled

    def _wait(self, timeout):
        if not self.done():
            SCHED.park(("future-wait",), cond=self.done, deadline=None if timeout is None else round(SCHED.clock + timeout, 6))
        if self._cancelled:
            raise CancelledError()
        if not self._done:
            raise TimeoutError()

    def result(self, timeout=None):
        self._wait(timeout)
        if self._exc is not None:
            raise self._exc
        return self._result

    def exception(self, timeout=None):
        self._wait(timeout)
        return self._exc

    def add_done_callback(self, fn):
        if self.done():
            fn(self)
        else:
            self._cbs.append(fn)


class ThreadPoolExecutor:
    """FIFO work queue, at most n tasks running, shutdown(wait=True) waits for accepted work."""

    def __init__(self, max_workers=None, *a, **k):
        if max_workers is None:
            # concurrent.futures' own default: min(32, cpu + 4)
            max_workers = min(32, (getattr(SCHED, "cpu", None) or 1) + 4)
        if max_workers <= 0:
            raise ValueError("max_workers must be greater than 0")
        self._max_workers = max_workers
        self.workq = collections.deque()
        self.running = 0
        self.shut = False
        self.count = 0
        self.cancelled = 0

    def submit(self, fn, *args, **kwargs):
        if self.shut:
            SCHED.event("submit-refused", SCHED.me().name if SCHED.me() is not None else None)
            raise RuntimeError("cannot schedule new futures after shutdown")
        self.count += 1
        k = self.count
        ex = self

        fut = Future()

        def body():
            try:
                fut._finish(result=fn(*args, **kwargs))
            except Exception as e:      # a Future swallows the exception
                SCHED.event("task-exception", "T%d" % k, type(e).__name__, str(e)[:120])
                fut._finish(exc=e)
        name = "T%d" % k
        self.workq.append(name)
        lt = SCHED.spawn(name, body, kind="task")
        lt.cond = lambda: ex.workq and ex.workq[0] == name and ex.running < ex._max_workers
        lt.op = ("task-start", name)
        lt.meta["fn"] = fn
        lt.meta["executor"] = ex
        lt.meta["submitter"] = SCHED.me().name if SCHED.me() is not None else None
        lt.meta["future"] = fut
        SCHED.event("submit", name)
        return fut

    def map(self, fn, *iterables, timeout=None, chunksize=1):
        futs = [self.submit(fn, *args) for args in zip(*iterables)]

        def results():
            for f in futs:
                yield f.result(timeout)
        return results()

    def __enter__(self):
        return self

    def __exit__(self, *a):
        self.shutdown(wait=True)
        return False

    def shutdown(self, wait=True, *, cancel_futures=False):
        self.shut = True
        SCHED.event("shutdown-flag")
        if cancel_futures:
            # concurrent.futures semantics: work items not yet started are dropped (their futures cancelled)
            for name in list(self.workq):
                lt = SCHED.threads.get(name)
                if lt is not None and not lt.started:
                    lt.cond = lambda: False
                    lt.meta["cancelled"] = True
                    lt.meta["future"]._cancelled = True
                    self.cancelled += 1
                    SCHED.event("task-cancelled", name)
            self.workq.clear()
        if wait:
            SCHED.park(("pool-shutdown",), cond=lambda: not self.workq and self.running == 0)
            SCHED.event("shutdown-done")


def _task_begin(t):
    if t.kind == "task":
        ex = t.meta["executor"]
        ex.workq.popleft()
        ex.running += 1


def _task_end(t):
    if t.kind == "task" and t.started:
        t.meta["executor"].running -= 1
        t.sched.event("task-done", t.name)


# ---------------------------------------------------------------------------------- socket / time / os
def io_error(kind):
    """the exceptions a failing socket operation raises: all are OSError, only some are ConnectionError"""
    import errno
    return {"pipe": BrokenPipeError(errno.EPIPE, "Broken pipe"),
            "reset": ConnectionResetError(errno.ECONNRESET, "Connection reset by peer"),
            "timedout": TimeoutError(errno.ETIMEDOUT, "Connection timed out"),
            "unreach": OSError(errno.EHOSTUNREACH, "No route to host"),
            "bare": OSError("I/O failure")}.get(kind) or ConnectionResetError(errno.ECONNRESET, "Connection reset by peer")


class Socket:
    """Scripted connection.  Inbound: chunks delivered by the proxy thread; `eof`/`reset` after them.
    Outbound: every sendall is recorded; the k-th may fail."""

    def __init__(self):
        self.inbound = collections.deque()
        self.in_eof = None          # None | 'eof' | 'reset'
        self.closed = False
        self.sent = []              # (clock, bytes)
        self.fail_write_at = None   # 1-based index of the sendall that raises
        self.nwrites = 0
        self.close_calls = 0
        self.pending_writers = []
        self.send_limit = 65536     # bytes one send() accepts (a nearly full socket buffer accepts fewer)
        self.timeout = None         # socket.settimeout()
        self.fail_write_kind = "pipe"   # which OSError a failing write raises (see io_error)
        self.slow_write_at = None   # 1-based index of a write that the (slowly reading) peer takes `slow_delay` seconds to accept
        self.slow_delay = 2.5

    def recv(self, n):
        if self.timeout is not None:
            if SCHED.park(("recv",), cond=lambda: self.inbound or self.in_eof or self.closed,
                          deadline=round(SCHED.clock + self.timeout, 6)) and not (self.inbound or self.in_eof or self.closed):
                SCHED.event("recv-timeout", SCHED.me().name)
                raise TimeoutError("timed out")
        else:
            SCHED.park(("recv",), cond=lambda: self.inbound or self.in_eof or self.closed)
        if self.closed:
            SCHED.event("recv-on-closed", SCHED.me().name)
            raise OSError(9, "Bad file descriptor")
        if self.inbound:
            data = self.inbound.popleft()
            if len(data) > n:
                self.inbound.appendleft(data[n:])
                data = data[:n]
            SCHED.event("recv", data)
            return data
        if self.in_eof == "eof":
            SCHED.event("recv-eof")
            return b""
        SCHED.event("recv-reset")
        raise io_error(self.in_eof)

    def _slow_peer(self):
        """the peer reads slowly: the next write takes `slow_delay` seconds to be accepted — longer than a socket timeout, if
        one was set on this object, in which case the operation fails with `socket.timeout` (an OSError)"""
        if self.slow_write_at is not None and self.nwrites + 1 == self.slow_write_at:
            if self.timeout is not None and self.timeout < self.slow_delay:
                SCHED.park(("send-wait",), cond=lambda: False, deadline=round(SCHED.clock + self.timeout, 6))
                self.nwrites += 1
                SCHED.event("send-timeout", SCHED.me().name)
                raise TimeoutError("timed out")
            # the thread is in the middle of its write for that long: another thread writing meanwhile interleaves with it
            me = SCHED.me().name
            self.pending_writers.append(me)
            try:
                SCHED.park(("send-wait",), cond=lambda: False, deadline=round(SCHED.clock + self.slow_delay, 6))
            finally:
                self.pending_writers.remove(me)

    def _announce(self, data):
        """park at the write; a write performed while another thread has announced its own (and, in reality, may be
        in the middle of it: a large line towards a slow peer) is reported — the bytes of the two could interleave."""
        me = SCHED.me().name
        self.pending_writers.append(me)
        try:
            SCHED.park(("send", data))
        finally:
            self.pending_writers.remove(me)
        if self.pending_writers:
            SCHED.event("concurrent-send", me, tuple(self.pending_writers))

    def sendall(self, data):
        self._slow_peer()
        self._announce(data)
        self.nwrites += 1
        if self.closed:
            SCHED.event("send-on-closed")
            raise OSError(9, "Bad file descriptor")
        if self.fail_write_at is not None and self.nwrites >= self.fail_write_at:
            SCHED.event("send-fails", self.nwrites)
            raise io_error(self.fail_write_kind)
        self.sent.append((SCHED.clock, bytes(data)))
        SCHED.event("sent", bytes(data))

    def send(self, data):
        """a single write(2): may be partial (at most 64 KiB are taken per call, like a full socket buffer)"""
        self._slow_peer()
        self._announce(data)
        self.nwrites += 1
        if self.closed:
            raise OSError(9, "Bad file descriptor")
        if self.fail_write_at is not None and self.nwrites >= self.fail_write_at:
            SCHED.event("send-fails", self.nwrites)
            raise io_error(self.fail_write_kind)
        part = bytes(data[:self.send_limit])
        self.sent.append((SCHED.clock, part))
        SCHED.event("sent", part)
        return len(part)

    def close(self):
        if getattr(SCHED, "yield_on_flags", False) and SCHED.me() is not None:
            SCHED.park(("socket-close",))
        self.close_calls += 1
        self.closed = True
        SCHED.event("socket-close")

    def settimeout(self, t):
        """socket timeouts apply to EVERY blocking operation of the object: recv, send and the whole of sendall"""
        self.timeout = t

    def gettimeout(self):
        return self.timeout

    def setblocking(self, flag):
        self.timeout = None if flag else 0.0


class TimeShim:
    @staticmethod
    def time():
        return SCHED.clock

    @staticmethod
    def monotonic():
        return SCHED.clock

    @staticmethod
    def perf_counter():
        return SCHED.clock

    @staticmethod
    def time_ns():
        return int(SCHED.clock * 1e9)

    @staticmethod
    def monotonic_ns():
        return int(SCHED.clock * 1e9)

    @staticmethod
    def sleep(x):
        SCHED.park(("sleep",), cond=lambda: False, deadline=round(SCHED.clock + x, 6))


class OsShim:
    @staticmethod
    def _exit(code):
        SCHED.event("exit", SCHED.me().name, code)
        raise ProcessExit()


def install(sched, sock, cpu=8):
    """Patch the library's modules for one scenario."""
    global SCHED
    import lightstreamer_adapter.server as S
    import lightstreamer_adapter.subscription as SUBM
    SCHED = sched
    sched.tie_prefers_item = False
    sched.hooks_begin.append(_task_begin)
    sched.hooks_end.append(_task_end)
    saved = {"S": {k: getattr(S, k) for k in ("Thread", "Event", "queue", "ThreadPoolExecutor", "create_socket_and_connect", "time", "os", "cpu_count", "traceback")},
             "SUBM": {"threading": SUBM.threading}}
    S.Thread, S.Event, S.queue, S.ThreadPoolExecutor = Thread, Event, QueueShim, ThreadPoolExecutor
    S.create_socket_and_connect = lambda address, ssl_context=None: sock
    S.time, S.os = TimeShim, OsShim
    S.cpu_count = lambda: cpu
    sched.cpu = cpu

    class _TB:
        @staticmethod
        def print_exc(*a, **k):
            pass
    S.traceback = _TB
    SUBM.threading = ThreadingShim
    # whatever else the two modules import from threading / queue / concurrent.futures under whatever name (`from threading
    # import Lock`, `import threading`, `from queue import Queue, Empty` …) is replaced by its stand-in as well: a real
    # primitive under the cooperative scheduler would block the only running thread for good
    import queue as _queue
    import concurrent.futures as _cf
    real = [(_threading.Lock, Lock), (_threading.RLock, RLock), (_threading.Thread, Thread), (_threading.Event, Event),
            (_threading, ThreadingShim), (_queue, QueueShim), (_queue.Queue, Queue), (_queue.Empty, Empty),
            (_cf.ThreadPoolExecutor, ThreadPoolExecutor)]
    extra = []
    for mod in (S, SUBM):
        for k, v in list(vars(mod).items()):
            for r, shim_obj in real:
                if v is r:
                    extra.append((mod, k, v))
                    setattr(mod, k, shim_obj)
    saved["extra"] = extra
    return saved


def uninstall(saved):
    global SCHED
    import lightstreamer_adapter.server as S
    import lightstreamer_adapter.subscription as SUBM
    for k, v in saved["S"].items():
        setattr(S, k, v)
    SUBM.threading = saved["SUBM"]["threading"]
    for mod, k, v in saved.get("extra", []):
        setattr(mod, k, v)
    SCHED = None
