"""Thorough-tier side runs with REAL threads and a REAL socket pair (tests, labelled as such): they probe the
assumptions the scheduler shim makes about queue.Queue, ThreadPoolExecutor and sendall (C16), and the
"nothing retained" claim on thousands of one-shot items (C19)."""
import gc
import socket
import threading
import time
from streams import Result


def _server(pool=4, feed_threads=0):
    import lightstreamer_adapter.server as S
    from lightstreamer_adapter.interfaces.data import DataProvider
    a, b = socket.socketpair()
    orig = S.create_socket_and_connect
    S.create_socket_and_connect = lambda address, ssl_context=None: a

    class A(DataProvider):
        def __init__(self):
            self.listener = None
            self.subs = 0
        def initialize(self, p, c=None): pass
        def set_listener(self, l): self.listener = l
        def issnapshot_available(self, i): return False
        def subscribe(self, i):
            self.subs += 1
            self.listener.update(i, {"seq": "in-subscribe", "pad": "x" * 10}, True)
        def unsubscribe(self, i): pass
    ad = A()
    srv = S.DataProviderServer(ad, ("x", 1), keep_alive=0, thread_pool_size=pool)
    try:
        srv.start()
    finally:
        S.create_socket_and_connect = orig
    return srv, ad, b


def _read_until(sock, pred, timeout=60):
    buf = b""
    sock.settimeout(1.0)
    t0 = time.time()
    while time.time() - t0 < timeout:
        try:
            d = sock.recv(1 << 16)
        except socket.timeout:
            d = b""
        except OSError:
            break
        buf += d
        if pred(buf):
            break
    return buf


def stream_outbound(tier):
    res = Result("real-threads-socketpair-outbound (test)")
    if tier != "thorough":
        return res
    srv, ad, peer = _server(pool=4)
    try:
        peer.sendall(b"1|DPI|S|ARI.version|S|1.9.1\r\n")
        peer.sendall(b"s1|SUB|S|feed\r\n")
        _read_until(peer, lambda b: b"s1|SUB|V" in b)
        nthreads, per = 6, 300

        def feed(k):
            for i in range(per):
                size = 70000 if i % 50 == 0 else 20 + (i % 7) * 30
                ad.listener.update("feed", {"tag": "%d:%d" % (k, i), "pad": "y" * size}, False)
        ts = [threading.Thread(target=feed, args=(k,)) for k in range(nthreads)]
        [t.start() for t in ts]
        [t.join() for t in ts]
        peer.sendall(b"u1|USB|S|feed\r\n")
        buf = _read_until(peer, lambda b: b"u1|USB|V" in b, timeout=120)
        lines = buf.split(b"\r\n")
        last = {}
        count = 0
        for l in lines:
            if b"|UD3|" in l and b"|tag|S|" in l:
                tag = l.split(b"|tag|S|")[1].split(b"|")[0].decode()
                k, i = [int(x) for x in tag.replace("%3A", ":").split(":")]
                count += 1
                res.evaluations += 1
                if not l.endswith(b"y") or b"\n" in l:
                    res.violation("real-outbound-interleaved", "a line on the real socket is not one contiguous message", {"line": l[:80].decode("latin1")})
                if last.get(k, -1) + 1 != i:
                    res.violation("real-outbound-order", "messages of thread %d out of order or lost: %d after %d" % (k, i, last.get(k, -1)), {})
                last[k] = i
        if count != nthreads * per:
            res.violation("real-outbound-count", "%d update lines read, %d submitted" % (count, nthreads * per), {})
        res.nontrivial.update(range(count))
        res.sample({"threads": nthreads, "messages_per_thread": per, "bytes_read": len(buf)})
    finally:
        try:
            srv.close()
        except Exception:
            pass
        peer.close()
    return res


def stream_census(tier):
    res = Result("real-threads-one-shot-items-census (test)")
    if tier != "thorough":
        return res
    import lightstreamer_adapter.subscription as SUBM
    srv, ad, peer = _server(pool=4)
    try:
        peer.sendall(b"1|DPI|S|ARI.version|S|1.9.1\r\n")
        n = 5000
        out = []
        for i in range(n):
            out.append(b"a%d|SUB|S|one-shot-%d\r\nb%d|USB|S|one-shot-%d\r\n" % (i, i, i, i))
        done = threading.Event()
        got = {"buf": b""}

        def reader():
            got["buf"] = _read_until(peer, lambda b: b.count(b"|USB|V") >= n, timeout=180)
            done.set()
        t = threading.Thread(target=reader)
        t.start()
        for chunk in out:
            peer.sendall(chunk)
        done.wait(200)
        t.join(5)
        time.sleep(0.5)
        res.evaluations = n
        res.nontrivial.update(range(n))
        active = len(srv._subscription_mgr._active_items)
        gc.collect()
        alive = sum(1 for o in gc.get_objects() if isinstance(o, SUBM._ItemTaskManager))
        replies = got["buf"].count(b"|USB|V")
        res.sample({"items": n, "usb_replies": replies, "active_items_after": active, "manager_objects_alive": alive})
        if replies != n:
            res.violation("census-replies", "%d of %d unsubscriptions answered" % (replies, n), {})
        if active != 0:
            res.violation("census-active-items", "%d items still registered after all were unsubscribed" % active, {})
        if alive > 8:
            res.violation("census-managers-alive", "%d _ItemTaskManager objects alive after %d one-shot items" % (alive, n), {})
    finally:
        try:
            srv.close()
        except Exception:
            pass
        peer.close()
    return res
